// verif-driver: rustc_private fact extractor for the /verif static-analysis framework.
//
// Invoked through RUSTC_WORKSPACE_WRAPPER (argv[1] = real rustc path, dropped).  For every
// crate whose name is listed in $VERIF_CRATES it dumps, after analysis, two JSON-lines
// files into $VERIF_OUT:
//   <crate>-<disambiguator>.full.jsonl   one line per MIR body: complete CFG (statements,
//                                        terminators, resolved callees, constants, types)
//   <crate>-<disambiguator>.light.jsonl  one line per MIR body: summary (calls, variants
//                                        constructed, fields written/read, consts, asserts)
//                                        + byte offset/length of the body in the full file;
//                                        plus ENUM / CONSTVAL records.
// Nothing of the analysed program is executed.  One write per process per file.

#![feature(rustc_private)]
#![allow(clippy::all)]

extern crate rustc_abi;
extern crate rustc_driver;
extern crate rustc_hir;
extern crate rustc_interface;
extern crate rustc_middle;
extern crate rustc_session;
extern crate rustc_span;

use rustc_driver::{Callbacks, Compilation};
use rustc_hir::def::DefKind;
use rustc_hir::def_id::{DefId, LocalDefId};
use rustc_middle::mir::{
    self, AggregateKind, BasicBlock, Body, Operand, Place, ProjectionElem, Rvalue, StatementKind,
    TerminatorKind,
};
use rustc_middle::ty::{self, print::with_no_trimmed_paths, Instance, Ty, TyCtxt, TypingEnv};
use std::collections::{BTreeMap, BTreeSet};
use std::fmt::Write as _;

struct Cb;

impl Callbacks for Cb {
    fn after_analysis<'tcx>(
        &mut self,
        _compiler: &rustc_interface::interface::Compiler,
        tcx: TyCtxt<'tcx>,
    ) -> Compilation {
        let crate_name = tcx.crate_name(rustc_hir::def_id::LOCAL_CRATE).to_string();
        let wanted = std::env::var("VERIF_CRATES").unwrap_or_default();
        let out = std::env::var("VERIF_OUT").unwrap_or_default();
        if out.is_empty() || !wanted.split(',').any(|c| c == crate_name) {
            return Compilation::Continue;
        }
        with_no_trimmed_paths!(extract(tcx, &crate_name, &out));
        Compilation::Continue
    }
}

fn main() {
    let mut args: Vec<String> = std::env::args().collect();
    if args.len() > 1 && (args[1].ends_with("rustc") || args[1].contains("/rustc")) {
        args.remove(1);
    }
    let mut cb = Cb;
    rustc_driver::run_compiler(&args, &mut cb);
}

// ---------------------------------------------------------------------------------------
// JSON helpers (zero deps)

fn jstr(s: &str) -> String {
    let mut o = String::with_capacity(s.len() + 2);
    o.push('"');
    for c in s.chars() {
        match c {
            '"' => o.push_str("\\\""),
            '\\' => o.push_str("\\\\"),
            '\n' => o.push_str("\\n"),
            '\r' => o.push_str("\\r"),
            '\t' => o.push_str("\\t"),
            c if (c as u32) < 0x20 => {
                let _ = write!(o, "\\u{:04x}", c as u32);
            }
            c => o.push(c),
        }
    }
    o.push('"');
    o
}

fn trunc(s: String, n: usize) -> String {
    if s.len() <= n {
        s
    } else {
        let mut e = n;
        while !s.is_char_boundary(e) {
            e -= 1;
        }
        format!("{}…", &s[..e])
    }
}

// ---------------------------------------------------------------------------------------
// Canonical names

struct Cx<'tcx> {
    tcx: TyCtxt<'tcx>,
    enums: BTreeMap<String, String>,
    constvals: BTreeMap<String, String>,
    strconsts: BTreeMap<String, String>,
}

fn ty_name<'tcx>(tcx: TyCtxt<'tcx>, t: Ty<'tcx>) -> String {
    match t.kind() {
        ty::Adt(adt, args) => {
            let base = canon(tcx, adt.did());
            let concrete: Vec<String> = args
                .iter()
                .filter_map(|a| a.as_type())
                .map(|a| ty_name(tcx, a))
                .collect();
            let any_concrete = args
                .iter()
                .filter_map(|a| a.as_type())
                .any(|a| !matches!(a.kind(), ty::Param(_)));
            if any_concrete {
                format!("{}<{}>", base, concrete.join(", "))
            } else {
                base
            }
        }
        ty::Ref(_, inner, m) => {
            if m.is_mut() {
                format!("&mut {}", ty_name(tcx, *inner))
            } else {
                format!("&{}", ty_name(tcx, *inner))
            }
        }
        ty::Slice(inner) => format!("[{}]", ty_name(tcx, *inner)),
        ty::Array(inner, n) => format!("[{}; {:?}]", ty_name(tcx, *inner), n),
        ty::Tuple(ts) => {
            let v: Vec<String> = ts.iter().map(|x| ty_name(tcx, x)).collect();
            format!("({})", v.join(", "))
        }
        ty::Param(p) => p.name.to_string(),
        ty::Closure(did, _) => canon(tcx, *did),
        ty::FnDef(did, _) => format!("fn#{}", canon(tcx, *did)),
        _ => trunc(format!("{:?}", t), 200),
    }
}

fn canon<'tcx>(tcx: TyCtxt<'tcx>, did: DefId) -> String {
    let kind = tcx.def_kind(did);
    match kind {
        DefKind::Mod if did.is_crate_root() => tcx.crate_name(did.krate).to_string(),
        DefKind::Impl { .. } => {
            let self_ty = tcx.type_of(did).instantiate_identity().skip_norm_wip();
            let s = ty_name(tcx, self_ty);
            if let Some(tr) = tcx.impl_opt_trait_ref(did) {
                let tr = tr.instantiate_identity().skip_norm_wip();
                let targs: Vec<String> = tr
                    .args
                    .iter()
                    .skip(1)
                    .filter_map(|a| a.as_type())
                    .filter(|a| !matches!(a.kind(), ty::Param(_)))
                    .map(|a| ty_name(tcx, a))
                    .collect();
                let tn = canon(tcx, tr.def_id);
                if targs.is_empty() {
                    format!("<{} as {}>", s, tn)
                } else {
                    format!("<{} as {}<{}>>", s, tn, targs.join(", "))
                }
            } else {
                s
            }
        }
        _ => {
            let parent = match tcx.opt_parent(did) {
                Some(p) => p,
                None => return tcx.crate_name(did.krate).to_string(),
            };
            let key = tcx.def_key(did);
            let dd = key.disambiguated_data;
            let comp = match dd.data.name() {
                rustc_hir::definitions::DefPathDataName::Named(s) => {
                    if dd.disambiguator == 0 { s.to_string() } else { format!("{}#{}", s, dd.disambiguator) }
                }
                rustc_hir::definitions::DefPathDataName::Anon { namespace } => {
                    format!("{{{}#{}}}", namespace, dd.disambiguator)
                }
            };
            format!("{}::{}", canon(tcx, parent), comp)
        }
    }
}

// ---------------------------------------------------------------------------------------

fn line_of<'tcx>(tcx: TyCtxt<'tcx>, sp: rustc_span::Span) -> (String, usize) {
    let sm = tcx.sess.source_map();
    let sp = if sp.from_expansion() {
        sp.source_callsite()
    } else {
        sp
    };
    let loc = sm.lookup_char_pos(sp.lo());
    let f = match &loc.file.name {
        rustc_span::FileName::Real(r) => match r.local_path() {
            Some(p) => p.to_string_lossy().to_string(),
            None => format!("{:?}", r),
        },
        other => format!("{:?}", other),
    };
    (f, loc.line)
}

struct FnOut {
    calls: Vec<String>,
    vars: BTreeSet<String>,
    structs: BTreeSet<String>,
    fw: BTreeSet<String>,
    fr: BTreeSet<String>,
    consts: BTreeSet<String>,
    asserts: Vec<String>,
    casts: Vec<String>,
    strs: BTreeSet<String>,
}

impl<'tcx> Cx<'tcx> {
    fn note_enum(&mut self, t: Ty<'tcx>) -> Option<String> {
        if let ty::Adt(adt, _) = t.kind() {
            if adt.is_enum() {
                let name = canon(self.tcx, adt.did());
                if !self.enums.contains_key(&name) {
                    let mut v = Vec::new();
                    for (idx, d) in adt.discriminants(self.tcx) {
                        let var = adt.variant(idx);
                        v.push(format!("[{},{}]", jstr(&d.val.to_string()), jstr(var.name.as_str())));
                    }
                    self.enums.insert(name.clone(), format!("[{}]", v.join(",")));
                }
                return Some(name);
            }
        }
        None
    }

    fn place(&mut self, body: &Body<'tcx>, p: &Place<'tcx>, out: &mut FnOut, write: bool) -> String {
        let tcx = self.tcx;
        let mut s = format!("[{}", p.local.as_usize());
        let mut pty = mir::PlaceTy::from_ty(body.local_decls[p.local].ty);
        let n = p.projection.len();
        for (i, elem) in p.projection.iter().enumerate() {
            match elem {
                ProjectionElem::Deref => s.push_str(",\"*\""),
                ProjectionElem::Field(f, _) => {
                    let mut fname = format!("{}", f.as_usize());
                    let mut owner = String::new();
                    match pty.ty.kind() {
                        ty::Adt(adt, _) => {
                            let vidx = pty.variant_index.unwrap_or(rustc_abi::FIRST_VARIANT);
                            if let Some(var) = adt.variants().get(vidx) {
                                if let Some(fd) = var.fields.get(f) {
                                    fname = fd.name.to_string();
                                }
                                owner = canon(tcx, adt.did());
                                if adt.is_enum() {
                                    owner = format!("{}::{}", owner, var.name);
                                }
                            }
                        }
                        _ => {}
                    }
                    if !owner.is_empty() {
                        let key = format!("{}.{}", owner, fname);
                        if write && i == n - 1 {
                            out.fw.insert(key);
                        } else {
                            out.fr.insert(key);
                        }
                    }
                    let _ = write!(s, ",{}", jstr(&format!(".{}", fname)));
                }
                ProjectionElem::Downcast(name, vidx) => {
                    let nm = match name {
                        Some(n) => n.to_string(),
                        None => format!("{}", vidx.as_usize()),
                    };
                    self.note_enum(pty.ty);
                    let _ = write!(s, ",{}", jstr(&format!("@{}", nm)));
                }
                ProjectionElem::Index(l) => {
                    let _ = write!(s, ",\"[_{}]\"", l.as_usize());
                }
                ProjectionElem::ConstantIndex { offset, from_end, .. } => {
                    let _ = write!(s, ",\"[c{}{}]\"", if from_end { "-" } else { "" }, offset);
                }
                ProjectionElem::Subslice { .. } => s.push_str(",\"[sub]\""),
                ProjectionElem::OpaqueCast(_) => s.push_str(",\"opaque\""),
                ProjectionElem::UnwrapUnsafeBinder(_) => s.push_str(",\"unbind\""),
            }
            pty = pty.projection_ty(tcx, elem);
        }
        s.push(']');
        s
    }

    fn konst(&mut self, body_did: DefId, c: &mir::ConstOperand<'tcx>, out: &mut FnOut) -> String {
        let tcx = self.tcx;
        let ty = c.const_.ty();
        let mut def = String::new();
        let mut val = String::new();
        match ty.kind() {
            ty::FnDef(did, _) => {
                def = canon(tcx, *did);
            }
            _ => {}
        }
        if let mir::Const::Unevaluated(uv, _) = c.const_ {
            if uv.promoted.is_none() {
                let mut d = uv.def;
                // `Self::CONST` / `T::CONST` mentions name the trait's associated const: resolve to the impl's const when the type is known
                if matches!(tcx.def_kind(d), DefKind::AssocConst { .. }) {
                    let env = TypingEnv::post_analysis(tcx, body_did);
                    if let Ok(Some(inst)) = Instance::try_resolve(tcx, env, d, uv.args) {
                        d = inst.def_id();
                    }
                }
                def = canon(tcx, d);
                out.consts.insert(def.clone());
            } else {
                // a promoted temporary (e.g. `&NAMED_CONST`): report the named constants it is built from
                let p = uv.promoted.unwrap();
                let mut inner: Vec<String> = Vec::new();
                let proms = tcx.promoted_mir(uv.def);
                if let Some(pb) = proms.get(p) {
                    for data in pb.basic_blocks.iter() {
                        for st in &data.statements {
                            if let StatementKind::Assign(b) = &st.kind {
                                let mut ops: Vec<&Operand<'tcx>> = Vec::new();
                                match &b.1 {
                                    Rvalue::Use(o, ..) | Rvalue::Cast(_, o, _) | Rvalue::Repeat(o, _) | Rvalue::UnaryOp(_, o) => ops.push(o),
                                    Rvalue::Aggregate(_, os) => ops.extend(os.iter()),
                                    Rvalue::BinaryOp(_, ab) => { ops.push(&ab.0); ops.push(&ab.1); }
                                    _ => {}
                                }
                                for o in ops {
                                    if let Operand::Constant(c2) = o {
                                        if let mir::Const::Unevaluated(uv2, _) = c2.const_ {
                                            if uv2.promoted.is_none() {
                                                let d2 = canon(tcx, uv2.def);
                                                out.consts.insert(d2.clone());
                                                inner.push(d2);
                                            }
                                        }
                                    }
                                }
                            }
                        }
                    }
                }
                def = format!("promoted#{}[{}]", p.as_usize(), inner.join(","));
            }
        }
        let scalarish = matches!(ty.kind(), ty::Int(_) | ty::Uint(_) | ty::Bool | ty::Char);
        if scalarish {
            use rustc_middle::ty::TypeVisitableExt;
            if !c.const_.has_non_region_param() {
                let env = TypingEnv::post_analysis(tcx, body_did);
                if let Some(si) = c.const_.try_eval_scalar_int(tcx, env) {
                    let size = si.size();
                    val = match ty.kind() {
                        ty::Int(_) => format!("{}", si.to_int(size)),
                        _ => format!("{}", si.to_uint(size)),
                    };
                    if !def.is_empty() && !def.starts_with("promoted#") {
                        self.constvals.insert(def.clone(), val.clone());
                    }
                }
            }
        } else if let ty::Ref(_, inner, _) = ty.kind() {
            if inner.is_str() {
                if let mir::Const::Val(cv, _) = c.const_ {
                    if let Some(bytes) = cv.try_get_slice_bytes_for_diagnostics(tcx) {
                        let sv = String::from_utf8_lossy(bytes).to_string();
                        let sv = trunc(sv, 200);
                        out.strs.insert(sv.clone());
                        val = sv;
                    }
                }
                if val.is_empty() {
                    // pattern constants / valtree constants: fall back to the pretty-printed literal `const "..."`
                    let dbg = format!("{}", c.const_);
                    if let (Some(a), Some(b)) = (dbg.find('"'), dbg.rfind('"')) {
                        if b > a {
                            let sv = trunc(dbg[a + 1..b].to_string(), 200);
                            out.strs.insert(sv.clone());
                            val = sv;
                        }
                    }
                }
            }
        }
        let mut s = String::from("{");
        let _ = write!(s, "\"ty\":{}", jstr(&trunc(ty_name(tcx, ty), 200)));
        if !def.is_empty() {
            let _ = write!(s, ",\"def\":{}", jstr(&def));
        }
        if !val.is_empty() || scalarish {
            let _ = write!(s, ",\"v\":{}", jstr(&val));
        }
        s.push('}');
        s
    }

    fn operand(&mut self, did: DefId, body: &Body<'tcx>, o: &Operand<'tcx>, out: &mut FnOut) -> String {
        match o {
            Operand::Copy(p) => format!("[\"c\",{}]", self.place(body, p, out, false)),
            Operand::Move(p) => format!("[\"m\",{}]", self.place(body, p, out, false)),
            Operand::Constant(c) => format!("[\"k\",{}]", self.konst(did, c, out)),
            #[allow(unreachable_patterns)]
            _ => "[\"k\",{\"ty\":\"?\"}]".to_string(),
        }
    }

    fn rvalue(&mut self, did: DefId, body: &Body<'tcx>, rv: &Rvalue<'tcx>, out: &mut FnOut) -> String {
        let tcx = self.tcx;
        match rv {
            Rvalue::Use(o, ..) => format!("{{\"k\":\"use\",\"o\":{}}}", self.operand(did, body, o, out)),
            Rvalue::Repeat(o, _) => format!("{{\"k\":\"repeat\",\"o\":{}}}", self.operand(did, body, o, out)),
            Rvalue::Ref(_, bk, p) => {
                let m = matches!(bk, mir::BorrowKind::Mut { .. });
                format!("{{\"k\":\"ref\",\"m\":{},\"p\":{}}}", m, self.place(body, p, out, m))
            }
            Rvalue::RawPtr(k, p) => {
                let m = format!("{:?}", k).contains("Mut");
                format!("{{\"k\":\"rawptr\",\"m\":{},\"p\":{}}}", m, self.place(body, p, out, m))
            }
            Rvalue::Cast(ck, o, t) => {
                let cks = format!("{:?}", ck);
                let oty = o.ty(body, tcx);
                let from_ptr = matches!(oty.kind(), ty::RawPtr(..) | ty::FnPtr(..) | ty::Ref(..));
                if (cks.contains("PointerExposeProvenance") || (cks.contains("Transmute") && from_ptr && t.is_integral()))
                {
                    out.casts.push(format!("{}", jstr(&format!("{} -> {}", ty_name(tcx, oty), ty_name(tcx, *t)))));
                }
                format!(
                    "{{\"k\":\"cast\",\"ck\":{},\"o\":{},\"ty\":{}}}",
                    jstr(&trunc(cks, 60)),
                    self.operand(did, body, o, out),
                    jstr(&trunc(ty_name(tcx, *t), 200))
                )
            }
            Rvalue::BinaryOp(op, ab) => {
                let (a, b) = &**ab;
                format!(
                    "{{\"k\":\"bin\",\"op\":{},\"a\":{},\"b\":{}}}",
                    jstr(&format!("{:?}", op)),
                    self.operand(did, body, a, out),
                    self.operand(did, body, b, out)
                )
            }
            Rvalue::UnaryOp(op, a) => format!(
                "{{\"k\":\"un\",\"op\":{},\"a\":{}}}",
                jstr(&format!("{:?}", op)),
                self.operand(did, body, a, out)
            ),
            Rvalue::Discriminant(p) => {
                let pty = p.ty(body, tcx).ty;
                let en = self.note_enum(pty).unwrap_or_default();
                format!("{{\"k\":\"disc\",\"p\":{},\"enum\":{}}}", self.place(body, p, out, false), jstr(&en))
            }
            Rvalue::Aggregate(kind, ops) => {
                let mut hdr = String::new();
                match &**kind {
                    AggregateKind::Adt(adid, vidx, _, _, _) => {
                        let adt = tcx.adt_def(*adid);
                        let name = canon(tcx, *adid);
                        let var = adt.variant(*vidx);
                        let fields: Vec<String> = var.fields.iter().map(|f| jstr(f.name.as_str())).collect();
                        if adt.is_enum() {
                            out.vars.insert(format!("{}::{}", name, var.name));
                            let _ = write!(
                                hdr,
                                "\"ak\":\"adt\",\"adt\":{},\"var\":{},\"fields\":[{}]",
                                jstr(&name),
                                jstr(var.name.as_str()),
                                fields.join(",")
                            );
                        } else {
                            out.structs.insert(name.clone());
                            let _ = write!(hdr, "\"ak\":\"adt\",\"adt\":{},\"fields\":[{}]", jstr(&name), fields.join(","));
                        }
                    }
                    AggregateKind::Tuple => hdr.push_str("\"ak\":\"tuple\""),
                    AggregateKind::Array(_) => hdr.push_str("\"ak\":\"array\""),
                    AggregateKind::Closure(cd, _) => {
                        let _ = write!(hdr, "\"ak\":\"closure\",\"def\":{}", jstr(&canon(tcx, *cd)));
                    }
                    other => {
                        let _ = write!(hdr, "\"ak\":{}", jstr(&trunc(format!("{:?}", other), 80)));
                    }
                }
                let o: Vec<String> = ops.iter().map(|x| self.operand(did, body, x, out)).collect();
                format!("{{\"k\":\"agg\",{},\"ops\":[{}]}}", hdr, o.join(","))
            }
            Rvalue::CopyForDeref(p) => format!("{{\"k\":\"use\",\"o\":[\"c\",{}]}}", self.place(body, p, out, false)),
            Rvalue::ThreadLocalRef(d) => format!("{{\"k\":\"tls\",\"def\":{}}}", jstr(&canon(tcx, *d))),
            other => format!("{{\"k\":\"other\",\"d\":{}}}", jstr(&trunc(format!("{:?}", other), 120))),
        }
    }

    fn body(&mut self, ldid: LocalDefId, full: &mut String, light: &mut String, crate_name: &str) {
        let tcx = self.tcx;
        let did = ldid.to_def_id();
        let body: &Body<'tcx> = tcx.optimized_mir(did);
        let name = canon(tcx, did);
        let (file, line) = line_of(tcx, tcx.def_ident_span(did).unwrap_or_else(|| tcx.def_span(did)));
        let kind = tcx.def_kind(did);
        let mut out = FnOut {
            calls: vec![],
            vars: BTreeSet::new(),
            structs: BTreeSet::new(),
            fw: BTreeSet::new(),
            fr: BTreeSet::new(),
            consts: BTreeSet::new(),
            asserts: vec![],
            casts: vec![],
            strs: BTreeSet::new(),
        };
        let env = TypingEnv::post_analysis(tcx, did);

        // locals
        let mut names: BTreeMap<usize, String> = BTreeMap::new();
        for vdi in &body.var_debug_info {
            if let mir::VarDebugInfoContents::Place(p) = &vdi.value {
                if p.projection.is_empty() {
                    names.entry(p.local.as_usize()).or_insert(vdi.name.to_string());
                }
            }
        }
        let mut locals = Vec::new();
        for (l, d) in body.local_decls.iter_enumerated() {
            let t = trunc(ty_name(tcx, d.ty), 240);
            match names.get(&l.as_usize()) {
                Some(n) => locals.push(format!("[{},{}]", jstr(&t), jstr(n))),
                None => locals.push(format!("[{}]", jstr(&t))),
            }
        }

        // blocks
        let mut blocks = Vec::new();
        for (bb, data) in body.basic_blocks.iter_enumerated() {
            let mut stmts = Vec::new();
            for st in &data.statements {
                let (_, l) = line_of(tcx, st.source_info.span);
                match &st.kind {
                    StatementKind::Assign(b) => {
                        let (p, rv) = &**b;
                        let ps = self.place(body, p, &mut out, true);
                        let rs = self.rvalue(did, body, rv, &mut out);
                        stmts.push(format!("{{\"k\":\"=\",\"p\":{},\"rv\":{},\"l\":{}}}", ps, rs, l));
                    }
                    StatementKind::SetDiscriminant { place, variant_index } => {
                        let pty = place.ty(body, tcx).ty;
                        let mut vn = format!("{}", variant_index.as_usize());
                        if let ty::Adt(adt, _) = pty.kind() {
                            if adt.is_enum() {
                                let var = adt.variant(*variant_index);
                                vn = var.name.to_string();
                                out.vars.insert(format!("{}::{}", canon(tcx, adt.did()), vn));
                            }
                        }
                        let ps = self.place(body, place, &mut out, true);
                        stmts.push(format!("{{\"k\":\"setdisc\",\"p\":{},\"v\":{},\"l\":{}}}", ps, jstr(&vn), l));
                    }
                    _ => {}
                }
            }
            let term = data.terminator();
            let sp = term.source_info.span;
            let (_, l) = line_of(tcx, sp);
            let exp = sp.from_expansion();
            let bbn = |b: &BasicBlock| b.as_usize();
            let t = match &term.kind {
                TerminatorKind::Goto { target } => format!("{{\"k\":\"goto\",\"t\":{}}}", bbn(target)),
                TerminatorKind::SwitchInt { discr, targets } => {
                    let o = self.operand(did, body, discr, &mut out);
                    let ts: Vec<String> = targets.iter().map(|(v, b)| format!("[{},{}]", jstr(&v.to_string()), bbn(&b))).collect();
                    let dty = discr.ty(body, tcx);
                    format!(
                        "{{\"k\":\"switch\",\"o\":{},\"ts\":[{}],\"ow\":{},\"ty\":{},\"l\":{}}}",
                        o,
                        ts.join(","),
                        bbn(&targets.otherwise()),
                        jstr(&ty_name(tcx, dty)),
                        l
                    )
                }
                TerminatorKind::Return => "{\"k\":\"ret\"}".to_string(),
                TerminatorKind::Unreachable => "{\"k\":\"unreach\"}".to_string(),
                TerminatorKind::UnwindResume => "{\"k\":\"resume\"}".to_string(),
                TerminatorKind::UnwindTerminate(_) => "{\"k\":\"abort\"}".to_string(),
                TerminatorKind::Drop { place, target, .. } => {
                    let ps = self.place(body, place, &mut out, false);
                    format!("{{\"k\":\"drop\",\"p\":{},\"t\":{}}}", ps, bbn(target))
                }
                TerminatorKind::Assert { cond, expected, msg, target, .. } => {
                    let o = self.operand(did, body, cond, &mut out);
                    let ak = {
                        let d = format!("{:?}", std::mem::discriminant(&**msg));
                        let mut s = match &**msg {
                            mir::AssertKind::BoundsCheck { .. } => "BoundsCheck".to_string(),
                            mir::AssertKind::Overflow(op, _, _) => format!("Overflow({:?})", op),
                            mir::AssertKind::OverflowNeg(_) => "OverflowNeg".to_string(),
                            mir::AssertKind::DivisionByZero(_) => "DivisionByZero".to_string(),
                            mir::AssertKind::RemainderByZero(_) => "RemainderByZero".to_string(),
                            _ => format!("Other{}", d),
                        };
                        if let mir::AssertKind::Overflow(_, a, b) = &**msg {
                            let _ = write!(s, "<{}>", ty_name(tcx, a.ty(body, tcx)));
                            let _ = b;
                        }
                        s
                    };
                    out.asserts.push(format!("[{},{},{},{}]", jstr(&ak), l, exp, bbn(&bb)));
                    let extra = match &**msg {
                        mir::AssertKind::BoundsCheck { len, index } => format!(
                            ",\"len\":{},\"index\":{}",
                            self.operand(did, body, len, &mut out),
                            self.operand(did, body, index, &mut out)
                        ),
                        mir::AssertKind::Overflow(_, a, b) => format!(
                            ",\"a\":{},\"b\":{}",
                            self.operand(did, body, a, &mut out),
                            self.operand(did, body, b, &mut out)
                        ),
                        mir::AssertKind::DivisionByZero(a) | mir::AssertKind::RemainderByZero(a) => {
                            format!(",\"a\":{}", self.operand(did, body, a, &mut out))
                        }
                        _ => String::new(),
                    };
                    format!(
                        "{{\"k\":\"assert\",\"c\":{},\"e\":{},\"ak\":{},\"t\":{},\"l\":{},\"exp\":{}{}}}",
                        o,
                        expected,
                        jstr(&ak),
                        bbn(target),
                        l,
                        exp,
                        extra
                    )
                }
                TerminatorKind::Call { func, args, destination, target, unwind, .. } => {
                    let fty = func.ty(body, tcx);
                    let mut declared = String::from("<indirect>");
                    let mut resolved = String::from("<indirect>");
                    let mut ga = String::new();
                    let mut is_res = false;
                    if let ty::FnDef(cdid, cargs) = fty.kind() {
                        declared = canon(tcx, *cdid);
                        resolved = declared.clone();
                        ga = trunc(format!("{:?}", cargs), 400);
                        if let Ok(Some(inst)) = Instance::try_resolve(tcx, env, *cdid, cargs) {
                            let rd = inst.def_id();
                            resolved = canon(tcx, rd);
                            is_res = true;
                            if let ty::InstanceKind::Virtual(..) = inst.def {
                                is_res = false;
                            }
                        }
                    } else if let Operand::Copy(p) | Operand::Move(p) = func {
                        let _ = write!(declared, "{}", p.local.as_usize());
                        resolved = declared.clone();
                    }
                    let a: Vec<String> = args.iter().map(|x| self.operand(did, body, &x.node, &mut out)).collect();
                    let d = self.place(body, destination, &mut out, true);
                    let tgt = match target {
                        Some(b) => format!("{}", bbn(b)),
                        None => "null".to_string(),
                    };
                    let unw = match unwind {
                        mir::UnwindAction::Cleanup(b) => format!("{}", bbn(b)),
                        _ => "null".to_string(),
                    };
                    out.calls.push(format!(
                        "[{},{},{},{},{},{}]",
                        jstr(&resolved),
                        jstr(&declared),
                        l,
                        exp,
                        bbn(&bb),
                        jstr(&trunc(ga.clone(), 160))
                    ));
                    format!(
                        "{{\"k\":\"call\",\"f\":{},\"fd\":{},\"res\":{},\"ga\":{},\"args\":[{}],\"d\":{},\"t\":{},\"u\":{},\"l\":{},\"exp\":{}}}",
                        jstr(&resolved),
                        jstr(&declared),
                        is_res,
                        jstr(&ga),
                        a.join(","),
                        d,
                        tgt,
                        unw,
                        l,
                        exp
                    )
                }
                TerminatorKind::FalseEdge { real_target, .. } => format!("{{\"k\":\"goto\",\"t\":{}}}", bbn(real_target)),
                TerminatorKind::FalseUnwind { real_target, .. } => format!("{{\"k\":\"goto\",\"t\":{}}}", bbn(real_target)),
                other => format!("{{\"k\":\"other\",\"d\":{}}}", jstr(&trunc(format!("{:?}", other), 100))),
            };
            blocks.push(format!(
                "{{\"s\":[{}],\"t\":{}{}}}",
                stmts.join(","),
                t,
                if data.is_cleanup { ",\"cu\":true" } else { "" }
            ));
        }

        // impl / trait info
        let mut timpl = String::from("null");
        let mut tdecl = String::from("null");
        let mut owner = did;
        while matches!(tcx.def_kind(owner), DefKind::Closure | DefKind::InlineConst | DefKind::AnonConst) {
            owner = tcx.parent(owner);
        }
        let parent_fn = if owner != did { canon(tcx, owner) } else { String::new() };
        if let Some(p) = tcx.opt_parent(owner) {
            match tcx.def_kind(p) {
                DefKind::Impl { of_trait: true } => {
                    if let Some(tr) = tcx.impl_opt_trait_ref(p) {
                        let tr = tr.instantiate_identity().skip_norm_wip();
                        let self_ty = tcx.type_of(p).instantiate_identity().skip_norm_wip();
                        timpl = format!("[{},{}]", jstr(&canon(tcx, tr.def_id)), jstr(&ty_name(tcx, self_ty)));
                    }
                }
                DefKind::Trait => {
                    tdecl = jstr(&canon(tcx, p));
                }
                _ => {}
            }
        }
        let vis = if matches!(kind, DefKind::Fn | DefKind::AssocFn) {
            let v = tcx.visibility(did);
            if v.is_public() {
                "pub".to_string()
            } else {
                match v {
                    ty::Visibility::Restricted(m) => format!("in {}", canon(tcx, m)),
                    _ => "pub".to_string(),
                }
            }
        } else {
            String::new()
        };
        let modpath = {
            let m = tcx.parent_module_from_def_id(ldid);
            canon(tcx, m.to_def_id())
        };

        let off = full.len();
        let _ = write!(
            full,
            "{{\"fn\":{},\"argc\":{},\"locals\":[{}],\"blocks\":[{}]}}\n",
            jstr(&name),
            body.arg_count,
            locals.join(","),
            blocks.join(",")
        );
        let len = full.len() - off;

        let js = |s: &BTreeSet<String>| s.iter().map(|x| jstr(x)).collect::<Vec<_>>().join(",");
        let _ = write!(
            light,
            "{{\"fn\":{},\"crate\":{},\"mod\":{},\"file\":{},\"line\":{},\"kind\":{},\"parent\":{},\"timpl\":{},\"tdecl\":{},\"vis\":{},\"calls\":[{}],\"vars\":[{}],\"structs\":[{}],\"fw\":[{}],\"fr\":[{}],\"consts\":[{}],\"strs\":[{}],\"asserts\":[{}],\"casts\":[{}],\"nb\":{},\"off\":{},\"len\":{}}}\n",
            jstr(&name),
            jstr(crate_name),
            jstr(&modpath),
            jstr(&file),
            line,
            jstr(&format!("{:?}", kind)),
            jstr(&parent_fn),
            timpl,
            tdecl,
            jstr(&vis),
            out.calls.join(","),
            js(&out.vars),
            js(&out.structs),
            js(&out.fw),
            js(&out.fr),
            js(&out.consts),
            js(&out.strs),
            out.asserts.join(","),
            out.casts.join(","),
            body.basic_blocks.len(),
            off,
            len
        );
    }
}

fn extract<'tcx>(tcx: TyCtxt<'tcx>, crate_name: &str, out_dir: &str) {
    let mut cx = Cx { tcx, enums: BTreeMap::new(), constvals: BTreeMap::new(), strconsts: BTreeMap::new() };
    let mut full = String::new();
    let mut light = String::new();
    let mut n = 0usize;
    let mut keys: Vec<LocalDefId> = tcx.mir_keys(()).iter().copied().collect();
    keys.sort_by_key(|k| tcx.def_path_hash(k.to_def_id()));
    for ldid in keys {
        let did = ldid.to_def_id();
        let kind = tcx.def_kind(did);
        if !matches!(kind, DefKind::Fn | DefKind::AssocFn | DefKind::Closure) {
            continue;
        }
        if tcx.hir_body_const_context(ldid).is_some() {
            // const fn bodies are still ordinary runtime code: keep `const fn`, skip consts/statics.
            if !matches!(kind, DefKind::Fn | DefKind::AssocFn) {
                continue;
            }
        }
        if tcx.is_constructor(did) {
            continue;
        }
        cx.body(ldid, &mut full, &mut light, crate_name);
        n += 1;
    }
    // named constants with scalar values defined in this crate (evaluated), even if unused in MIR
    for ldid in tcx.hir_body_owners() {
        let did = ldid.to_def_id();
        if matches!(tcx.def_kind(did), DefKind::Const { .. } | DefKind::AssocConst { .. }) {
            use rustc_middle::ty::TypeVisitableExt;
            let t = tcx.type_of(did).instantiate_identity().skip_norm_wip();
            let is_str = matches!(t.kind(), ty::Ref(_, inner, _) if inner.is_str());
            if is_str {
                if tcx.generics_of(did).requires_monomorphization(tcx) || t.has_non_region_param() {
                    continue;
                }
                if let Ok(cv) = tcx.const_eval_poly(did) {
                    if let Some(bytes) = cv.try_get_slice_bytes_for_diagnostics(tcx) {
                        let sv = trunc(String::from_utf8_lossy(bytes).to_string(), 300);
                        cx.strconsts.insert(canon(tcx, did), sv);
                    }
                }
                continue;
            }
            if !matches!(t.kind(), ty::Int(_) | ty::Uint(_) | ty::Bool | ty::Char) {
                continue;
            }
            if tcx.generics_of(did).requires_monomorphization(tcx) || t.has_non_region_param() {
                continue;
            }
            if let Ok(cv) = tcx.const_eval_poly(did) {
                if let Some(si) = cv.try_to_scalar_int() {
                    let size = si.size();
                    let v = match t.kind() {
                        ty::Int(_) => format!("{}", si.to_int(size)),
                        _ => format!("{}", si.to_uint(size)),
                    };
                    cx.constvals.insert(canon(tcx, did), v);
                }
            }
        }
    }
    // type aliases defined in this crate (incl. macro-generated), with their expanded right-hand side
    for ldid in tcx.hir_crate_items(()).definitions() {
        let did = ldid.to_def_id();
        if matches!(tcx.def_kind(did), DefKind::TyAlias) {
            let t = tcx.type_of(did).instantiate_identity().skip_norm_wip();
            let _ = write!(light, "{{\"alias\":{},\"ty\":{}}}\n", jstr(&canon(tcx, did)), jstr(&trunc(t.to_string(), 400)));
        }
    }
    for (k, v) in &cx.enums {
        let _ = write!(light, "{{\"enum\":{},\"variants\":{}}}\n", jstr(k), v);
    }
    for (k, v) in &cx.strconsts {
        let _ = write!(light, "{{\"strconst\":{},\"value\":{}}}\n", jstr(k), jstr(v));
    }
    for (k, v) in &cx.constvals {
        let _ = write!(light, "{{\"const\":{},\"value\":{}}}\n", jstr(k), jstr(v));
    }
    let disamb = format!("{:x}", tcx.stable_crate_id(rustc_hir::def_id::LOCAL_CRATE).as_u64());
    let feats: Vec<String> = tcx
        .sess
        .config
        .iter()
        .filter(|(k, _)| k.as_str() == "feature")
        .filter_map(|(_, v)| v.map(|x| x.to_string()))
        .collect();
    let _ = write!(
        light,
        "{{\"meta\":{},\"fns\":{},\"features\":[{}],\"disamb\":{}}}\n",
        jstr(crate_name),
        n,
        feats.iter().map(|f| jstr(f)).collect::<Vec<_>>().join(","),
        jstr(&disamb)
    );
    let base = format!("{}/{}-{}", out_dir, crate_name, disamb);
    std::fs::write(format!("{}.full.jsonl", base), full).expect("write full facts");
    std::fs::write(format!("{}.light.jsonl", base), light).expect("write light facts");
}
