use radix_common::math::*;
use std::str::FromStr;

#[test]
fn a_sign_inside_the_fractional_part_is_rejected() {
    for s in ["1.-5", "1.+5", "-0.-5", "0.-0", "1.+0"] {
        assert!(Decimal::from_str(s).is_err(), "Decimal accepted {:?} as {:?}", s, Decimal::from_str(s));
        assert!(PreciseDecimal::from_str(s).is_err(), "PreciseDecimal accepted {:?}", s);
    }
}

#[test]
fn ordinary_numerals_still_parse() {
    assert_eq!(Decimal::from_str("1.5").unwrap().to_string(), "1.5");
    assert_eq!(Decimal::from_str("-1.05").unwrap().to_string(), "-1.05");
    assert_eq!(Decimal::from_str("+1.5").unwrap().to_string(), "1.5");
    assert_eq!(PreciseDecimal::from_str("-0.000000000000000000000000000000000001").unwrap().to_string(), "-0.000000000000000000000000000000000001");
    assert!(Decimal::from_str("1.").is_err() && Decimal::from_str(".5").is_err());
    assert!(Decimal::from_str("1.0000000000000000001").is_err());
}
