use radix_common::prelude::*;
use radix_transactions::manifest::*;
use radix_transactions::prelude::*;

fn diag(manifest: &str) -> std::thread::Result<Result<TransactionManifestV1, String>> {
    let m = manifest.to_string();
    std::panic::catch_unwind(move || {
        compile_manifest_with_pretty_error::<TransactionManifestV1>(
            &m,
            &NetworkDefinition::simulator(),
            BlobProvider::new(),
            CompileErrorDiagnosticsStyle::PlainText,
        )
    })
}

#[test]
fn pretty_error_on_crlf_manifest_with_late_error_does_not_panic() {
    // 60 valid lines with CRLF line endings, then a lexer error on the last line
    let mut s = String::new();
    for _ in 0..60 {
        s.push_str("DROP_ALL_PROOFS;\r\n");
    }
    s.push_str("DROP_ALL_PROOFS; $");
    let r = diag(&s);
    assert!(matches!(r, Ok(Err(_))), "compile_manifest_with_pretty_error panicked");
}

#[test]
fn pretty_error_on_lf_manifest_with_late_error_does_not_panic() {
    let mut s = String::new();
    for _ in 0..60 {
        s.push_str("DROP_ALL_PROOFS;\n");
    }
    s.push_str("DROP_ALL_PROOFS; $");
    let r = diag(&s);
    assert!(matches!(r, Ok(Err(_))), "compile_manifest_with_pretty_error panicked");
}
