//! Demonstration for the C11 known finding (pinned tree, no mutation):
//! with a non-fungible proof in the auth zone *ahead of* a fungible one, creating a proof of amount of the fungible resource from the
//! auth zone makes the native AuthZone blueprint trap (`compose_fungible_proof` reads every proof's ProofRefs field as a fungible proof and
//! unwraps the decode), although `max_amount_locked` had just filtered the same list by blueprint.
//! Place as scrypto-test/tests/c11_auth_zone_mixed_proofs.rs and run: cargo test -p scrypto-test --test c11_auth_zone_mixed_proofs
use scrypto_test::prelude::*;

#[test]
fn proof_of_amount_from_auth_zone_holding_a_non_fungible_proof_first_does_not_trap() {
    let mut ledger = LedgerSimulatorBuilder::new().build();
    let (public_key, _, account) = ledger.new_allocated_account();
    let fungible = ledger.create_fungible_resource(dec!(100), 0, account);
    let non_fungible = ledger.create_non_fungible_resource(account);

    let manifest = ManifestBuilder::new()
        .lock_fee_from_faucet()
        .create_proof_from_account_of_non_fungibles(account, non_fungible, [NonFungibleLocalId::integer(1)])
        .create_proof_from_account_of_amount(account, fungible, dec!(1))
        .create_proof_from_auth_zone_of_amount(fungible, dec!(1), "proof")
        .build();
    let receipt = ledger.execute_manifest(manifest, vec![NonFungibleGlobalId::from_public_key(&public_key)]);

    if let TransactionResult::Commit(commit) = &receipt.result {
        if let TransactionOutcome::Failure(error) = &commit.outcome {
            assert!(
                !matches!(error, RuntimeError::VmError(VmError::Native(NativeRuntimeError::Trap { .. }))),
                "native blueprint trapped: {error:?}"
            );
        }
    }
    receipt.expect_commit_success();
}

#[test]
fn proof_of_non_fungibles_from_auth_zone_holding_a_fungible_proof_first_does_not_trap() {
    let mut ledger = LedgerSimulatorBuilder::new().build();
    let (public_key, _, account) = ledger.new_allocated_account();
    let fungible = ledger.create_fungible_resource(dec!(100), 0, account);
    let non_fungible = ledger.create_non_fungible_resource(account);

    let manifest = ManifestBuilder::new()
        .lock_fee_from_faucet()
        .create_proof_from_account_of_amount(account, fungible, dec!(1))
        .create_proof_from_account_of_non_fungibles(account, non_fungible, [NonFungibleLocalId::integer(1)])
        .create_proof_from_auth_zone_of_non_fungibles(non_fungible, [NonFungibleLocalId::integer(1)], "proof")
        .build();
    let receipt = ledger.execute_manifest(manifest, vec![NonFungibleGlobalId::from_public_key(&public_key)]);

    if let TransactionResult::Commit(commit) = &receipt.result {
        if let TransactionOutcome::Failure(error) = &commit.outcome {
            assert!(
                !matches!(error, RuntimeError::VmError(VmError::Native(NativeRuntimeError::Trap { .. }))),
                "native blueprint trapped: {error:?}"
            );
        }
    }
    receipt.expect_commit_success();
}
