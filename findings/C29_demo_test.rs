use radix_common::time::UtcDateTime;
use std::str::FromStr;

#[test]
fn parsing_non_ascii_text_returns_an_error_instead_of_panicking() {
    // 20 chars, separators at the right *char* positions, but byte 4 is inside 'é'
    let r = std::panic::catch_unwind(|| UtcDateTime::from_str("abcé-01-01T00:00:00Z"));
    assert!(matches!(r, Ok(Err(_))), "from_str panicked or accepted: {:?}", r.map(|x| x.is_ok()));
}
