#!/usr/bin/env python3
"""Mutation self-test of the checkers ("test the checker both ways").

For each mutation in selftest/mutations.py: apply it to a scratch git worktree of /repo (never to
/repo itself), run the named check against the worktree (VERIF_REPO), and require exit 1 with a
VIOLATION line whose report names the expected instance.  The worktree, its fact cache and build
output live under /tmp and are removed at the end.
usage: selftest/run.py [-k] [name-substring ...]
"""
import os, subprocess, sys, shutil, json, time
HERE = os.path.dirname(os.path.abspath(__file__))
VERIF = os.path.dirname(HERE)
sys.path.insert(0, HERE)
import mutations

WT = os.environ.get("SELFTEST_WT", "/tmp/verif-selftest-wt")
CACHE = os.environ.get("SELFTEST_CACHE", "/tmp/verif-selftest-cache")
EVD = os.path.join(CACHE, "evidence")

def sh(*a, **k):
    return subprocess.run(a, capture_output=True, text=True, **k)

def main():
    args = [a for a in sys.argv[1:] if not a.startswith("-")]
    keep = "-k" in sys.argv
    sel = [m for m in mutations.MUTATIONS if not args or any(a in m["name"] for a in args)]
    if not os.path.isdir(WT):
        r = sh("git", "-C", "/repo", "worktree", "add", "--detach", WT)
        if r.returncode: print(r.stderr); return 2
    # bring the worktree to /repo's current working tree state (HEAD + uncommitted edits)
    sh("git", "-C", WT, "checkout", "--detach", sh("git","-C","/repo","rev-parse","HEAD").stdout.strip())
    sh("git", "-C", WT, "checkout", "--", ".")
    d = sh("git", "-C", "/repo", "diff", "HEAD").stdout
    if d.strip():
        subprocess.run(["git", "-C", WT, "apply"], input=d, text=True)
    env = dict(os.environ, VERIF_REPO=WT, VERIF_CACHE=CACHE, VERIF_KEEP_TARGET="1", VERIF_EVIDENCE_DIR=EVD)
    results = []
    for m in sel:
        t0 = time.time()
        edits = m.get("edits") or ([(m["file"], m["find"], m["replace"])] if "file" in m else [])
        saved = {}
        try:
            if m.get("patch"):
                r = sh("git", "-C", WT, "apply", os.path.join(VERIF, m["patch"]))
                if r.returncode:
                    raise RuntimeError("patch does not apply: " + r.stderr.strip()[:200])
            for f, find, rep in edits:
                p = os.path.join(WT, f)
                src = open(p).read()
                saved.setdefault(p, src)
                cur = open(p).read()
                if cur.count(find) != 1:
                    raise RuntimeError(f"anchor text occurs {cur.count(find)}x in {f}")
                open(p, "w").write(cur.replace(find, rep))
            outs = []
            ok = True
            for prop in m["props"]:
                r = sh(os.path.join(VERIF, "bin", "check"), prop, env=env)
                out = r.stdout + r.stderr
                outs.append(out)
                fired = r.returncode == 1 and f"VIOLATION property={prop}" in out
                named = all(e in out for e in m.get("expect", []))
                broken = "BROKEN" in out
                if m.get("benign"):
                    # behaviour-preserving refactor: the check must stay silent
                    ok = ok and r.returncode == 0 and "VIOLATION" not in out and not broken
                else:
                    ok = ok and fired and named and not broken
            status = ("SILENT" if ok else "FALSE-ALARM") if m.get("benign") else ("CAUGHT" if ok else "MISSED")
        except Exception as e:
            status = "ERROR"; outs = [str(e)]
        finally:
            for p, src in saved.items():
                open(p, "w").write(src)
            if m.get("patch"):
                sh("git", "-C", WT, "apply", "-R", os.path.join(VERIF, m["patch"]))
        print(f"{status:7} {m['name']:50} {','.join(m['props'])} {time.time()-t0:.0f}s", flush=True)
        if status not in ("CAUGHT", "SILENT"):
            print("   " + "\n   ".join("\n".join(outs).strip().splitlines()[-12:]))
        results.append((m["name"], status))
    if not keep:
        sh("git", "-C", "/repo", "worktree", "remove", "--force", WT)
        shutil.rmtree(CACHE, ignore_errors=True)
    bad = [r for r in results if r[1] not in ("CAUGHT", "SILENT")]
    print(f"selftest: {len(results)-len(bad)}/{len(results)} as expected (mutations caught, benign refactors silent)")
    return 1 if bad else 0

if __name__ == "__main__":
    sys.exit(main())
