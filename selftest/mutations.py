"""Scratch-copy mutations: each breaks exactly one rule instance, still compiles, and must be reported."""
MUTATIONS = [
 dict(name="c13-write-lock-with-readers", props=["C13"], file="radix-engine/src/kernel/substate_locks.rs",
      find="                    if *n != 0 {\n                        return Err(SubstateLockError);\n                    }\n",
      replace="", expect=["reader count == 0"]),
 dict(name="c13-set_substate-skips-lock-test", props=["C13"], file="radix-engine/src/kernel/substate_io.rs",
      find="        if self\n            .substate_locks\n            .is_locked(node_id, partition_num, &substate_key)\n        {",
      replace="        if false && self\n            .substate_locks\n            .is_locked(node_id, partition_num, &substate_key)\n        {",
      expect=["set_substate|not-locked"]),
 dict(name="c13-open-always-readonly-false", props=["C13"], file="radix-engine/src/kernel/substate_io.rs",
      find="            !flags.contains(LockFlags::MUTABLE),\n            lock_data,",
      replace="            flags.contains(LockFlags::UNMODIFIED_BASE),\n            lock_data,",
      expect=["read_only-is-not-MUTABLE"]),
]
