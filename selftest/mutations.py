"""Scratch-copy mutations: each breaks exactly one rule instance, still compiles, and must be reported."""
MUTATIONS = [
 dict(name="c13-write-lock-with-readers", props=["C13"], file="radix-engine/src/kernel/substate_locks.rs",
      find="                    if *n != 0 {\n                        return Err(SubstateLockError);\n                    }\n",
      replace="", expect=["reader count == 0"]),
 dict(name="c13-set_substate-skips-lock-test", props=["C13"], file="radix-engine/src/kernel/substate_io.rs",
      find="        if self\n            .substate_locks\n            .is_locked(node_id, partition_num, &substate_key)\n        {",
      replace="        if false && self\n            .substate_locks\n            .is_locked(node_id, partition_num, &substate_key)\n        {",
      expect=["set_substate|not-locked"]),
 dict(name="c13-open-always-readonly-false", props=["C13"], file="radix-engine/src/kernel/substate_io.rs",
      find="            !flags.contains(LockFlags::MUTABLE),\n            lock_data,",
      replace="            flags.contains(LockFlags::UNMODIFIED_BASE),\n            lock_data,",
      expect=["read_only-is-not-MUTABLE"]),
]
MUTATIONS += [
 dict(name="c51-kvstore-open-skips-status-check", props=["C51"], file="radix-engine/src/system/system.rs",
      find="            if let LockStatus::Locked = lock_status {\n                return Err(RuntimeError::SystemError(SystemError::KeyValueEntryLocked));\n            }",
      replace="            let _ = lock_status;", expect=["key_value_store_open_entry|status-guard-before-ok"]),
 dict(name="c51-field-lock-accepts-read-handle", props=["C51"], file="radix-engine/src/system/system.rs",
      find="            SystemLockData::Field(FieldLockData::Write { .. }) => {}\n            _ => {\n                return Err(RuntimeError::SystemError(SystemError::NotAFieldWriteHandle));\n            }",
      replace="            SystemLockData::Field(..) => {}\n            _ => {\n                return Err(RuntimeError::SystemError(SystemError::NotAFieldWriteHandle));\n            }",
      expect=["field_lock|write-handle"]),
 dict(name="c50-drop-object-blueprint-check-inverted-to-package", props=["C50"], file="radix-engine/src/system/system.rs",
      find="            if Some(info.blueprint_info.blueprint_id.clone()) != actor.blueprint_id() {",
      replace="            if actor.blueprint_id().is_none() {", expect=["drop_object|actor-identity"]),
 dict(name="c50-globalize-skips-package-check", props=["C50"], file="radix-engine/src/system/system.rs",
      find="        if Some(reserved_blueprint_id.package_address) != actor.package_address() {",
      replace="        if actor.package_address().is_none() {", expect=["reserved package == actor package"]),
]
MUTATIONS += [
 dict(name="c02-revert-after-fee-finalisation", props=["C02"], file="radix-engine/src/system/system_callback.rs",
      edits=[("radix-engine/src/system/system_callback.rs",
              "        if !is_success {\n            fee_reserve.revert_royalty();\n            track.revert_non_force_write_changes();\n        }\n",
              "        if !is_success {\n            fee_reserve.revert_royalty();\n        }\n"),
             ("radix-engine/src/system/system_callback.rs",
              "        ) = Self::finalize_fees_for_commit(&mut track, fee_reserve, is_success);\n",
              "        ) = Self::finalize_fees_for_commit(&mut track, fee_reserve, is_success);\n        if !is_success {\n            track.revert_non_force_write_changes();\n        }\n")],
      expect=["revert_non_force_write_changes-before-finalize_fees_for_commit"]),
 dict(name="c02-royalty-not-reverted", props=["C02"], file="radix-engine/src/system/system_callback.rs",
      find="            fee_reserve.revert_royalty();\n            track.revert_non_force_write_changes();",
      replace="            track.revert_non_force_write_changes();", expect=["revert_royalty"]),
 dict(name="c02-failed-tx-keeps-events-when-logs", props=["C02"], file="radix-engine/src/system/system_modules/transaction_runtime/module.rs",
      find="            if !flags.contains(EventFlags::FORCE_WRITE) && !is_success {",
      replace="            if !flags.contains(EventFlags::FORCE_WRITE) && !is_success && self.logs.is_empty() {",
      expect=["runtime-finalize|event-kept"]),
 dict(name="c02-kvstore-accepts-force-write", props=["C02"], file="radix-engine/src/system/system.rs",
      find="        let type_info = TypeInfoBlueprint::get_type(node_id, self.api)?;\n\n        if flags.contains(LockFlags::UNMODIFIED_BASE) || flags.contains(LockFlags::FORCE_WRITE) {",
      replace="        let type_info = TypeInfoBlueprint::get_type(node_id, self.api)?;\n\n        if flags.contains(LockFlags::UNMODIFIED_BASE) {",
      expect=["key_value_store_open_entry|rejects-FORCE_WRITE"]),
]
MUTATIONS += [
 # ---- C01
 dict(name="c01-hashmap-encode-without-sort", props=["C01"], file="sbor/src/codec/collection.rs",
      find="        let mut keys: Vec<&K> = self.keys().collect();\n        keys.sort();\n",
      replace="        let keys: Vec<&K> = self.keys().collect();\n", expect=["hash-iteration"]),
 dict(name="c01-systemtime-in-limits-module", props=["C01"], file="radix-engine/src/system/system_modules/limits/module.rs",
      find="    pub fn process_substate_value(&self, value: &IndexedScryptoValue) -> Result<(), RuntimeError> {\n",
      replace="    pub fn process_substate_value(&self, value: &IndexedScryptoValue) -> Result<(), RuntimeError> {\n        let _t = std::time::SystemTime::now();\n",
      expect=["environment-call"]),
 # ---- C03 / C04 / C09 / C10
 dict(name="c03-burn-without-supply-update", props=["C03"], file="radix-engine/src/blueprints/resource/fungible/fungible_resource_manager.rs",
      find="            total_supply = total_supply\n                .checked_sub(other_bucket.liquid.amount())",
      replace="            total_supply = total_supply\n                .checked_sub(Decimal::ZERO)", expect=["decrement-is-the-dropped-amount"]),
 dict(name="c04-recall-without-event", props=["C04"], file="radix-engine/src/blueprints/resource/fungible/fungible_vault.rs",
      find="        Runtime::emit_event(api, events::fungible_vault::RecallEvent { amount })?;\n", replace="", expect=["pairing|FungibleVaultBlueprint::recall"]),
 dict(name="c09-drop-empty-bucket-always-ok", props=["C09"], file="radix-engine/src/blueprints/resource/fungible/fungible_resource_manager.rs",
      find="        if other_bucket.liquid.amount().is_zero() {\n            Ok(())\n        } else {",
      replace="        if other_bucket.liquid.amount().is_zero() || true {\n            Ok(())\n        } else {", expect=["drop_empty_bucket|ok-only-if-empty"]),
 dict(name="c10-proof-teardown-uses-lock-ident", props=["C10"], file="radix-engine/src/blueprints/resource/fungible/fungible_proof.rs",
      find="                    LocalRef::Vault(_) => FUNGIBLE_VAULT_UNLOCK_FUNGIBLE_AMOUNT_IDENT,",
      replace="                    LocalRef::Vault(_) => FUNGIBLE_VAULT_LOCK_FUNGIBLE_AMOUNT_IDENT,", expect=["teardown|Vault-ident"]),
 # ---- C05 / C06 / C07 / C08
 dict(name="c05-index-insert-skips-value-validation", props=["C05"], file="radix-engine/src/system/system.rs",
      find="        self.validate_blueprint_payload(\n            &target,\n            BlueprintPayloadIdentifier::IndexEntry(collection_index, KeyOrValue::Value),\n            &buffer,\n        )?;\n",
      replace="", expect=["actor_index_insert|validated"]),
 dict(name="c06-commit-without-limit-check", props=["C06"], file="radix-engine/src/system/system_modules/costing/fee_reserve.rs",
      find="    fn consume_finalization_internal(&mut self, cost_units: u32) -> Result<(), FeeReserveError> {\n        self.check_finalization_cost_unit_limit(cost_units)?;\n",
      replace="    fn consume_finalization_internal(&mut self, cost_units: u32) -> Result<(), FeeReserveError> {\n", expect=["consume_finalization_internal|commit"]),
 dict(name="c07-subintent-replay-unchecked", props=["C07"], file="radix-engine/src/system/system_callback.rs",
      find="                } => Self::validate_intent_hash_uncosted(\n                    store,\n                    IntentHash::Subintent(*intent_hash),\n                    *expiry_epoch,\n                ),",
      replace="                } => { let _ = (intent_hash, expiry_epoch); Ok(()) }", expect=["init|Subintent-checked"]),
 dict(name="c08-call-direct-access-skips-auth-hook", props=["C08"], file="radix-engine/src/system/system.rs",
      find="        let auth_actor_info = SystemModuleMixer::on_call_method(\n            self,\n            receiver,\n            ModuleId::Main,\n            true,\n            method_name,\n            &args,\n        )?;",
      replace="        let auth_actor_info = crate::system::system_modules::auth::AuthModule::on_call_fn_mock(\n            self,\n            Some((receiver, true)),\n            Default::default(),\n            Default::default(),\n        )?;",
      expect=["call_direct_access_method"]),
 # ---- C11 / C15 / C16 / C19 / C20 / C21
 dict(name="c15-rocksdb-reset-forgets-range-delete", props=["C15"], file="radix-substate-store-impls/src/rocks_db.rs",
      find="                        self.db\n                            .delete_range_cf(\n                                self.cf(),\n                                encode_to_rocksdb_bytes(&partition_key, &DbSortKey(vec![])),\n                                encode_to_rocksdb_bytes(\n                                    &partition_key,\n                                    &DbSortKey(vec![u8::MAX; 2 * MAX_SUBSTATE_KEY_SIZE]),\n                                ),\n                            )\n                            .expect(\"IO error\");\n",
      replace="", expect=["rocksdb|Reset-clears-then-inserts"]),
 dict(name="c16-reader-strips-shorter-prefix", props=["C16"], file="radix-substate-store-interface/src/db_key_mapper.rs",
      find="        &prefixed_bytes[Self::HASHED_PREFIX_LENGTH..]", replace="        &prefixed_bytes[Self::HASHED_PREFIX_LENGTH - 1..]", expect=["hash-prefix"]),
 dict(name="c19-direct-substate-put-again", props=["C19"], file="radix-substate-store-impls/src/rocks_db_with_merkle_tree/mod.rs",
      find="                                DatabaseUpdate::Set(value_bytes) => {\n                                    batch.put_cf(self.cf(SUBSTATES_CF), key_bytes, value_bytes)\n                                }",
      replace="                                DatabaseUpdate::Set(value_bytes) => {\n                                    self.db.put_cf(self.cf(SUBSTATES_CF), key_bytes, value_bytes).expect(\"IO error\")\n                                }",
      expect=["direct-write-before-flush|SUBSTATES_CF|put_cf"]),
 dict(name="c20-two-kinds-share-an-id", props=["C20"], file="sbor/src/value_kind.rs",
      find="            ValueKind::Map => VALUE_KIND_MAP,", replace="            ValueKind::Map => VALUE_KIND_ARRAY,", expect=["ValueKind|"]),
 dict(name="c20-encoder-size-limit-raised", props=["C20"], file="sbor/src/encoder.rs",
      find="        if size > 0x0FFFFFFF {", replace="        if size > 0x1FFFFFFF {", expect=["size|encoder-limit-equals-decoder-bound"]),
 dict(name="c21-uncapped-allocation", props=["C21"], file="sbor/src/codec/collection.rs",
      find="        let mut result = index_set_with_capacity(if len <= 1024 { len } else { 1024 });",
      replace="        let mut result = index_set_with_capacity(len);", expect=["alloc-cap"]),
 dict(name="c21-peek-byte-without-bounds", props=["C21"], file="sbor/src/decoder.rs",
      find="        self.require_remaining(1)?;\n        let result = self.input[self.offset];\n        Ok(result)",
      replace="        let result = self.input[self.offset];\n        Ok(result)", expect=["peek_byte|bounds"]),
 # ---- C28 / C29 / C30 / C31 / C32 / C33
 dict(name="c28-decoder-ignores-network", props=["C28"], file="radix-common/src/address/decoder.rs",
      find="        if actual_hrp != expected_hrp {", replace="        if actual_hrp.is_empty() && !expected_hrp.is_empty() {", expect=["decode|hrp-matches-network"]),
 dict(name="c29-ascii-guard-removed", props=["C29"], file="radix-common/src/time/utc_date_time.rs",
      find="        if s.is_ascii()\n            && chars.len() == 20", replace="        if chars.len() == 20", expect=["index:str[range]"]),
 dict(name="c30-decompiler-emits-unknown-alias", props=["C30"], file="radix-transactions/src/manifest/manifest_instructions.rs",
      find="                    return DecompiledInstruction::new(\"CREATE_VALIDATOR\");", replace="                    return DecompiledInstruction::new(\"CREATE_A_VALIDATOR\");",
      expect=["decompiler|emits-only-known-commands"]),
 dict(name="c31-snippet-uses-lines-again", props=["C31"], file="radix-transactions/src/manifest/diagnostic_snippets.rs",
      find="    for (i, line) in s.split_inclusive('\\n').enumerate() {\n        if (i + 1) < line_start {\n            skipped_chars += line.chars().count();",
      replace="    for (i, line) in s.lines().enumerate() {\n        if (i + 1) < line_start {\n            skipped_chars += line.chars().count() + 1;",
      expect=["create_snippet|line-iterator-keeps-terminators"]),
 dict(name="c31-new-unwrap-in-lexer", props=["C31"], file="radix-transactions/src/manifest/lexer.rs",
      find="    fn read_utf16_unit(&mut self) -> Result<u32, LexerError> {\n        let mut code: u32 = 0;\n",
      replace="    fn read_utf16_unit(&mut self) -> Result<u32, LexerError> {\n        let mut code: u32 = 0;\n        let _first = self.text.get(self.current.full_index + 4).unwrap();\n",
      expect=["panic-surface|"]),
 dict(name="c32-prepare-skips-check-complete", props=["C32"], file="radix-transactions/src/model/preparation/traits.rs",
      find="        let prepared = Self::prepare_from_transaction_enum(&mut transaction_decoder)?;\n        transaction_decoder.check_complete()?;\n",
      replace="        let prepared = Self::prepare_from_transaction_enum(&mut transaction_decoder)?;\n", expect=["prepare|gates"]),
 dict(name="c33-notary-signature-not-verified-when-not-signatory", props=["C33"], file="radix-transactions/src/validation/signature_validator.rs",
      find="                if !verify(\n                    notarized_hash.as_hash(),\n                    &notary_public_key,\n                    &notary_signature,\n                ) {",
      replace="                if notary_is_signatory && !verify(\n                    notarized_hash.as_hash(),\n                    &notary_public_key,\n                    &notary_signature,\n                ) {",
      expect=["TransactionIntent|notary-verification-mandatory"]),
 # ---- C34 / C35 / C36 / C40 / C41 / C43 / C45 / C47 / C48 / C49
 dict(name="c34-max-total-references-not-enforced", props=["C34"], file="radix-transactions/src/validation/transaction_structure_validator.rs",
      find="        if self.total_reference_count > config.max_total_references {", replace="        if false && self.total_reference_count > config.max_total_references {",
      expect=["max_total_references"]),
 dict(name="c35-unreachable-subintent-accepted", props=["C35"], file="radix-transactions/src/validation/transaction_structure_validator.rs",
      find="            if details.depth == 0 {\n                return Err(", replace="            if details.depth == 0 && false {\n                return Err(", expect=["eachab"]),
 dict(name="c40-timed-confirm-ignores-timer", props=["C40"], file="radix-engine/src/blueprints/access_controller/v2/state_machine.rs",
      find="                if !recovery_time_has_elapsed {\n                    access_controller_runtime_error!(TimedRecoveryDelayHasNotElapsed)\n                } else {",
      replace="                if !recovery_time_has_elapsed && input.proposal_to_confirm.timed_recovery_delay_in_minutes.is_none() {\n                    access_controller_runtime_error!(TimedRecoveryDelayHasNotElapsed)\n                } else {",
      expect=["v2|timed-confirm|timer-elapsed"]),
 dict(name="c41-redeem-rounds-up", props=["C41"], file="radix-engine/src/blueprints/pool/v1/v1_1/one_resource_pool_blueprint.rs",
      find="                value.checked_round(reserves_divisibility, RoundingMode::ToNegativeInfinity)", replace="                value.checked_round(reserves_divisibility, RoundingMode::ToPositiveInfinity)",
      expect=["rounding|"]),
 dict(name="c43-burn-without-tombstone", props=["C43"], file="radix-engine/src/blueprints/resource/non_fungible/non_fungible_resource_manager.rs",
      find="                api.key_value_entry_remove(handle)?;\n                // Tombstone the non fungible\n                // TODO: RUID non fungibles with no data don't need to go through this process\n                api.key_value_entry_lock(handle)?;",
      replace="                api.key_value_entry_remove(handle)?;", expect=["burn_internal|tombstone-after-remove"]),
 dict(name="c45-validation-enables-bulk-memory", props=["C45"], file="radix-engine/src/vm/wasm/prepare.rs",
      find="            bulk_memory: false,", replace="            bulk_memory: true,", expect=["features|only-allowed-enabled"]),
 dict(name="c45-pipeline-drops-table-limit", props=["C45"], file="radix-engine/src/vm/wasm/wasm_validator.rs",
      find="            .enforce_table_limit(self.max_initial_table_size)?\n", replace="", expect=["pipeline|enforce_table_limit"]),
 dict(name="c47-read-memory-end-check-dropped", props=["C47"], file="radix-engine/src/vm/wasm/wasmi.rs",
      find="    if ptr > data.len() || ptr + len > data.len() {\n        return Err(InvokeError::SelfError(WasmRuntimeError::MemoryAccessError));\n    }\n    Ok(data[ptr..ptr + len].to_vec())",
      replace="    if ptr > data.len() {\n        return Err(InvokeError::SelfError(WasmRuntimeError::MemoryAccessError));\n    }\n    Ok(data[ptr..ptr + len].to_vec())",
      expect=["read_memory|bounds"]),
 dict(name="c48-ed25519-non-strict", props=["C48"], file="radix-common/src/crypto/signature_validator.rs",
      find="        return pk.verify_strict(message.as_ref(), &sig).is_ok();", replace="        use ed25519_dalek::Verifier;\n        return pk.verify(message.as_ref(), &sig).is_ok();",
      expect=["verify_ed25519"]),
 dict(name="c49-event-count-limit-not-enforced", props=["C49"], file="radix-engine/src/system/system_modules/module_mixer.rs",
      find="            && self.transaction_runtime.events.len() >= self.limits.config().max_number_of_events", replace="            && self.transaction_runtime.events.len() >= usize::MAX",
      expect=["max_number_of_events"]),
 dict(name="c11-native-dispatch-outside-unwind-boundary", props=["C11"], file="radix-engine/src/vm/native_vm.rs",
      find="                match std::panic::catch_unwind(std::panic::AssertUnwindSafe(func)) {", replace="                match Ok::<_, Box<dyn std::any::Any + Send>>(func()) {",
      expect=["catch_unwind"]),
 dict(name="c36-consume-proof-arm-dropped", props=["C36"], file="radix-transactions/src/manifest/static_manifest_interpreter.rs",
      find="                self.consume_proof(visitor, consumed_proof, destination)?;\n            }\n            Effect::CloneProof",
      replace="                let _ = (consumed_proof, destination);\n            }\n            Effect::CloneProof", expect=["handle_instruction|ConsumeProof"]),
]
MUTATIONS += [
 # ---- C23
 dict(name="c23-custom-kind-never-mismatches", props=["C23"], file="sbor/src/schema/schema_comparison/schema_comparison_kernel.rs",
      find="            TypeKind::Custom(_) => {\n                if compared_type_kind != base_type_kind {\n                    return result.with_mismatch_error(base_type_kind, compared_type_kind);\n                }\n            }",
      replace="            TypeKind::Custom(_) => {}", expect=["kind|Custom-can-mismatch", "kind|accept-only-after-same-kind-test"]),
 dict(name="c23-any-base-accepts-every-kind", props=["C23"], file="sbor/src/schema/schema_comparison/schema_comparison_kernel.rs",
      find="            | TypeKind::String => {\n                if compared_type_kind != base_type_kind {",
      replace="            | TypeKind::String => {\n                if compared_type_kind != base_type_kind && !matches!(compared_type_kind, TypeKind::Any) {",
      expect=["kind|accept-only-after-same-kind-test"]),
 dict(name="c23-incomparable-validation-accepted-when-weakening-allowed", props=["C23"], file="sbor/src/schema/schema_comparison/schema_comparison_kernel.rs",
      find="            ValidationChange::Incomparable => false,\n        };\n        if !is_valid {",
      replace="            ValidationChange::Incomparable => settings.allow_validation_weakening,\n        };\n        if !is_valid {",
      expect=["validation|verdict-table"]),
]
MUTATIONS += [
 # ---- C42
 dict(name="c42-zero-stake-validator-stays-indexed", props=["C42"], file="radix-engine/src/blueprints/consensus_manager/validator.rs",
      find="        if !registered || stake.is_zero() {\n            Ok(None)",
      replace="        if !registered {\n            Ok(None)", expect=["to_sorted_key|some-only-if-registered-and-staked"]),
 dict(name="c42-active-set-not-truncated", props=["C42"], file="radix-engine/src/blueprints/consensus_manager/consensus_manager.rs",
      find="                .take(config.max_validators as usize)\n",
      replace="                .take(num_validators_to_read_from_store as usize)\n", expect=["epoch_change|take-max_validators"]),
 dict(name="c42-unstake-burns-before-valuing", props=["C42"], file="radix-engine/src/blueprints/consensus_manager/validator.rs",
      edits=[("radix-engine/src/blueprints/consensus_manager/validator.rs",
              "            let xrd_amount = Self::calculate_redemption_value(\n                stake_unit_bucket_amount,\n                &validator_substate,\n                api,\n            )?;\n\n            let mut stake_vault", "            let mut stake_vault"),
             ("radix-engine/src/blueprints/consensus_manager/validator.rs",
              "            stake_unit_resman.burn(stake_unit_bucket, api)?;\n\n            let manager_handle",
              "            stake_unit_resman.burn(stake_unit_bucket, api)?;\n            let xrd_amount = Self::calculate_redemption_value(stake_unit_bucket_amount, &validator_substate, api)?;\n\n            let manager_handle")],
      expect=["unstake|ratio-read-before-burn"]),
]
MUTATIONS += [
 # ---- C38
 dict(name="c38-bucket-returning-method-declared-no-output", props=["C38"], file="radix-transactions/src/manifest/static_resource_movements/effect.rs",
      edits=[("radix-transactions/src/manifest/static_resource_movements/effect.rs",
              "    AccessControllerContributeRecoveryFeeManifestInput,\n    // Account\n",
              "    AccessControllerContributeRecoveryFeeManifestInput,\n    AccessControllerMintRecoveryBadgesManifestInput,\n    // Account\n"),
             ("radix-transactions/src/manifest/static_resource_movements/effect.rs",
              "    // The minted badge is of a new / unknown resource\n    AccessControllerMintRecoveryBadgesManifestInput,\n", "")],
      expect=["no-output-class|AccessControllerMintRecoveryBadges"]),
 dict(name="c38-unresolved-invocation-assumed-to-return-nothing", props=["C38"], file="radix-transactions/src/manifest/static_resource_movements/visitor.rs",
      find="            None => TrackedResources::new_with_possible_balance_of_unspecified_resources([\n                change_source,\n            ]),",
      replace="            None => TrackedResources::new_empty(),", expect=["unresolved|None-arm-yields-unknown"]),
]
MUTATIONS += [
 # ---- C22
 dict(name="c22-derive-describe-lists-skipped-named-fields", props=["C22"], file="sbor-derive-common/src/describe.rs",
      find="            let unskipped_field_name_strings = fields.unskipped_field_name_strings();\n            quote! {\n                sbor::TypeData::struct_with_named_fields(\n                    #type_name,\n                    sbor::rust::vec![\n                        #((#unskipped_field_name_strings, <#unskipped_field_types as sbor::Describe<#custom_type_kind_generic>>::TYPE_ID),)*",
      replace="            let unskipped_field_name_strings: Vec<String> = fields.iter().map(|f| f.name.to_string()).collect();\n            let unskipped_field_types: Vec<syn::Type> = fields.iter().map(|f| f.field_type().clone()).collect();\n            quote! {\n                sbor::TypeData::struct_with_named_fields(\n                    #type_name,\n                    sbor::rust::vec![\n                        #((#unskipped_field_name_strings, <#unskipped_field_types as sbor::Describe<#custom_type_kind_generic>>::TYPE_ID),)*",
      expect=["arity|radix_transactions::model::v1::manifest_v1::LegacyTransactionManifestV1"]),
]
# ---- behaviour-preserving refactors: the checks must stay SILENT on these (benign=True)
MUTATIONS += [
 dict(name="benign-c20-read-size-unrolled-correctly", props=["C20"], benign=True, file="sbor/src/decoder.rs",
      find="""        let mut size = 0usize;
        let mut shift = 0;
        let mut byte;
        loop {
            byte = self.read_byte()?;
            size |= ((byte & 0x7F) as usize) << shift;
            if byte < 0x80 {
                break;
            }
            shift += 7;
            if shift >= 28 {
                return Err(DecodeError::InvalidSize);
            }
        }

        // The last byte should not be zero, unless the size is zero
        if byte == 0 && shift != 0 {
            return Err(DecodeError::InvalidSize);
        }

        Ok(size)
""",
      replace="""        let mut size = 0usize;
        for shift in [0, 7, 14] {
            let byte = self.read_byte()?;
            size |= ((byte & 0x7F) as usize) << shift;
            if byte < 0x80 {
                if byte == 0 && shift != 0 {
                    return Err(DecodeError::InvalidSize);
                }
                return Ok(size);
            }
        }
        let byte = self.read_byte()?;
        if byte >= 0x80 || byte == 0 {
            return Err(DecodeError::InvalidSize);
        }
        Ok(size | ((byte as usize) << 21))
"""),
 dict(name="benign-c06-deduction-extracted-into-helper", props=["C06"], benign=True, file="radix-engine/src/system/system_modules/costing/fee_reserve.rs",
      find="""    fn consume_finalization_internal(&mut self, cost_units: u32) -> Result<(), FeeReserveError> {
        self.check_finalization_cost_unit_limit(cost_units)?;

        let amount = self
            .effective_finalization_cost_unit_price
            .checked_mul(cost_units)
            .ok_or(FeeReserveError::Overflow)?;
        if self.xrd_balance < amount {
            Err(FeeReserveError::InsufficientBalance {
                required: amount,
                remaining: self.xrd_balance,
            })
        } else {
            self.xrd_balance -= amount;
            self.finalization_cost_units_committed += cost_units;
            Ok(())
        }
    }
""",
      replace="""    fn deduct_cost_units(&mut self, cost_unit_price: Decimal, cost_units: u32) -> Result<(), FeeReserveError> {
        let amount = cost_unit_price
            .checked_mul(cost_units)
            .ok_or(FeeReserveError::Overflow)?;
        if self.xrd_balance < amount {
            Err(FeeReserveError::InsufficientBalance {
                required: amount,
                remaining: self.xrd_balance,
            })
        } else {
            self.xrd_balance -= amount;
            Ok(())
        }
    }

    fn consume_finalization_internal(&mut self, cost_units: u32) -> Result<(), FeeReserveError> {
        self.check_finalization_cost_unit_limit(cost_units)?;
        self.deduct_cost_units(self.effective_finalization_cost_unit_price, cost_units)?;
        self.finalization_cost_units_committed += cost_units;
        Ok(())
    }
"""),
]
MUTATIONS += [
 dict(name="benign-c51-status-test-as-match", props=["C51"], benign=True, file="radix-engine/src/system/system.rs",
      find="            if let LockStatus::Locked = lock_status {\n                return Err(RuntimeError::SystemError(SystemError::KeyValueEntryLocked));\n            }\n        }\n",
      replace="            match lock_status {\n                LockStatus::Locked => {\n                    return Err(RuntimeError::SystemError(SystemError::KeyValueEntryLocked));\n                }\n                LockStatus::Unlocked => {}\n            }\n        }\n"),
 dict(name="benign-c10-lock-comparison-flipped", props=["C10"], benign=True, file="radix-engine/src/blueprints/resource/fungible/fungible_vault.rs",
      find="        if amount > max_locked {", replace="        if max_locked < amount {"),
 dict(name="benign-c08-amount-comparison-flipped", props=["C08"], benign=True, file="radix-engine/src/system/system_modules/auth/authorization.rs",
      find="                    && p.amount(api)? >= amount", replace="                    && amount <= p.amount(api)?"),
 dict(name="benign-c42-sorted-key-condition-inverted-form", props=["C42"], benign=True, file="radix-engine/src/blueprints/consensus_manager/validator.rs",
      find="        if !registered || stake.is_zero() {\n            Ok(None)\n        } else {\n            Ok(Some((\n                create_sort_prefix_from_stake(stake)?,\n                scrypto_encode(&address).unwrap(),\n            )))\n        }",
      replace="        if registered && !stake.is_zero() {\n            Ok(Some((\n                create_sort_prefix_from_stake(stake)?,\n                scrypto_encode(&address).unwrap(),\n            )))\n        } else {\n            Ok(None)\n        }"),
 dict(name="benign-c23-kind-equality-positive-form", props=["C23"], benign=True, file="sbor/src/schema/schema_comparison/schema_comparison_kernel.rs",
      find="            TypeKind::Custom(_) => {\n                if compared_type_kind != base_type_kind {\n                    return result.with_mismatch_error(base_type_kind, compared_type_kind);\n                }\n            }",
      replace="            TypeKind::Custom(_) => {\n                if compared_type_kind == base_type_kind {\n                } else {\n                    return result.with_mismatch_error(base_type_kind, compared_type_kind);\n                }\n            }"),
 dict(name="benign-c02-revert-order-swapped", props=["C02"], benign=True, file="radix-engine/src/system/system_callback.rs",
      find="            fee_reserve.revert_royalty();\n            track.revert_non_force_write_changes();",
      replace="            track.revert_non_force_write_changes();\n            fee_reserve.revert_royalty();"),
 dict(name="benign-c05-duplicate-test-as-contains-then-insert", props=["C05"], benign=True, file="radix-engine/src/kernel/call_frame.rs",
      find="                if !new_owned_nodes.insert(*own) {\n                    return Err(SubstateDiffError::ContainsDuplicateOwns);\n                }\n\n                if !self.owned_nodes.contains(own) {",
      replace="                let newly_listed = new_owned_nodes.insert(*own);\n                if !newly_listed {\n                    return Err(SubstateDiffError::ContainsDuplicateOwns);\n                }\n\n                if !self.owned_nodes.contains(own) {"),
]
MUTATIONS += [
 dict(name="benign-c13-reader-count-test-as-greater-than-zero", props=["C13"], benign=True, file="radix-engine/src/kernel/substate_locks.rs",
      find="                    if *n != 0 {\n                        return Err(SubstateLockError);\n                    }\n",
      replace="                    if *n > 0 {\n                        return Err(SubstateLockError);\n                    }\n"),
 dict(name="benign-c44-progress-by-direct-comparison", props=["C44"], benign=True, file="radix-common/src/types/consensus.rs",
      find="        let difference = (to.0 as i128) - (from.0 as i128);\n        if difference <= 0 {\n            None\n        } else {\n            Some(difference as u64) // if a difference of two u64 is positive, then it fits in u64\n        }",
      replace="        if to.0 > from.0 {\n            Some(to.0 - from.0)\n        } else {\n            None\n        }"),
 dict(name="benign-c50-drop-object-comparison-flipped", props=["C50"], benign=True, file="radix-engine/src/system/system.rs",
      find="            if Some(info.blueprint_info.blueprint_id.clone()) != actor.blueprint_id() {",
      replace="            if actor.blueprint_id() != Some(info.blueprint_info.blueprint_id.clone()) {"),
]
MUTATIONS += [
 dict(name="benign-c07-advance-modular-correct", props=["C07"], benign=True, file="radix-engine/src/blueprints/transaction_tracker/package.rs",
      find="        self.start_partition = if self.start_partition == self.partition_range_end_inclusive {\n            self.partition_range_start_inclusive\n        } else {\n            self.start_partition + 1\n        };",
      replace="        let num_partitions =\n            self.partition_range_end_inclusive - self.partition_range_start_inclusive + 1;\n        let offset = old_start_partition - self.partition_range_start_inclusive;\n        self.start_partition = self.partition_range_start_inclusive + (offset + 1) % num_partitions;"),
]
MUTATIONS += [
 # ---- properties that had no breaking mutation yet
 dict(name="c12-transient-test-dropped-db-read-for-transient-substates", props=["C12"], file="radix-engine/src/track/track.rs",
      find="                if self\n                    .transient_substates\n                    .is_transient(node_id, partition_number, &substate_key)\n                {\n                    let tracked = TrackedSubstate {\n                        substate_key: substate_key.clone(),\n                        substate_value: TrackedSubstateValue::ReadOnly(ReadOnly::NonExistent),",
      replace="                if false && self\n                    .transient_substates\n                    .is_transient(node_id, partition_number, &substate_key)\n                {\n                    let tracked = TrackedSubstate {\n                        substate_key: substate_key.clone(),\n                        substate_value: TrackedSubstateValue::ReadOnly(ReadOnly::NonExistent),",
      expect=["C12"]),
 dict(name="c14-reset-partition-falls-through-to-root", props=["C14"], file="radix-substate-store-impls/src/substate_database_overlay.rs",
      find="                        // does not exist.\n                        None => OverlayLookupResult::Found(None),",
      replace="                        // does not exist.\n                        None => OverlayLookupResult::NotFound,", expect=["C14"]),
 dict(name="c17-reset-keeps-old-root", props=["C17"], file="radix-substate-store-impls/src/state_tree/substate_tier.rs",
      find="                self.set_root_version(None);\n\n                Box::new(\n                    new_substate_values", replace="                Box::new(\n                    new_substate_values",
      expect=["substate-tier|reset-empties-root"]),
 dict(name="c24-checked-add-uses-panicking-operator", props=["C24"], file="radix-common/src/math/decimal.rs",
      find="        let a = self.0;\n        let b = other.0;\n        let c = a.checked_add(b);\n        c.map(Self)",
      replace="        let a = self.0;\n        let b = other.0;\n        Some(Self(a + b))", expect=["C24"]),
 dict(name="c25-to-positive-infinity-rounds-down", props=["C25"], file="radix-common/src/math/rounding_mode.rs",
      find="            RoundingMode::ToPositiveInfinity => ResolvedRoundingStrategy::RoundUp,\n            RoundingMode::ToNegativeInfinity => ResolvedRoundingStrategy::RoundDown,",
      replace="            RoundingMode::ToPositiveInfinity => ResolvedRoundingStrategy::RoundDown,\n            RoundingMode::ToNegativeInfinity => ResolvedRoundingStrategy::RoundDown,", expect=["C25"]),
 dict(name="c26-nth-root-zero-degree-not-rejected", props=["C26"], file="radix-common/src/math/decimal.rs",
      find="        if (self.is_negative() && n.is_multiple_of(2)) || n == 0 {\n            None\n        } else if n == 1 {\n            Some(*self)\n        } else {\n            if self.is_zero() {\n                return Some(Self::ZERO);\n            }\n\n            // By induction, we need to multiply by the (n-1)th power of 10^18.",
      replace="        if self.is_negative() && n.is_multiple_of(2) {\n            None\n        } else if n == 1 {\n            Some(*self)\n        } else {\n            if self.is_zero() {\n                return Some(Self::ZERO);\n            }\n\n            // By induction, we need to multiply by the (n-1)th power of 10^18.",
      expect=["C26"]),
 dict(name="c27-fraction-digits-check-removed", props=["C27"], file="radix-common/src/math/decimal.rs",
      find="            if !v[1].bytes().all(|b| b.is_ascii_digit()) {\n                return Err(Self::Err::InvalidDigit);\n            }\n", replace="", expect=["C27"]),
 dict(name="c37-at-least-amount-never-fails", props=["C37"], file="radix-common/src/data/manifest/model/manifest_resource_assertion.rs",
      find="            ManifestResourceConstraint::AtLeastAmount(expected_at_least_amount) => {\n                if amount < expected_at_least_amount {\n                    return Err(ResourceConstraintError::ExpectedAtLeastAmount {\n                        expected_at_least_amount,\n                        actual_amount: amount,\n                    });\n                }\n            }\n            ManifestResourceConstraint::ExactNonFungibles(..) => {\n                return Err(\n                    ResourceConstraintError::NonFungibleConstraintNotValidForFungibleResource,",
      replace="            ManifestResourceConstraint::AtLeastAmount(_expected_at_least_amount) => {}\n            ManifestResourceConstraint::ExactNonFungibles(..) => {\n                return Err(\n                    ResourceConstraintError::NonFungibleConstraintNotValidForFungibleResource,",
      expect=["C37"]),
]
MUTATIONS += [
 dict(name="benign-c04-balance-test-flipped", props=["C04"], benign=True, file="radix-engine-interface/src/blueprints/resource/resource.rs",
      find="        if self.amount < amount_to_take {", replace="        if amount_to_take > self.amount {"),
]
MUTATIONS += [
 dict(name="benign-c47-bounds-test-flipped-and-positive-form", props=["C47"], benign=True, file="radix-engine/src/vm/wasm/wasmi.rs",
      find="    if ptr > data.len() || ptr + len > data.len() {\n        return Err(InvokeError::SelfError(WasmRuntimeError::MemoryAccessError));\n    }\n    Ok(data[ptr..ptr + len].to_vec())",
      replace="    if data.len() >= ptr && data.len() >= ptr + len {\n        Ok(data[ptr..ptr + len].to_vec())\n    } else {\n        Err(InvokeError::SelfError(WasmRuntimeError::MemoryAccessError))\n    }"),
]
MUTATIONS += [
 dict(name="benign-c03-supply-update-in-helper", props=["C03"], benign=True, patch="selftest/patches/benign-c03-supply-update-in-helper.diff"),
]
MUTATIONS += [
 dict(name="benign-c02-flag-rejection-as-intersects", props=["C02"], benign=True, file="radix-engine/src/system/system.rs",
      find="        let type_info = TypeInfoBlueprint::get_type(node_id, self.api)?;\n\n        if flags.contains(LockFlags::UNMODIFIED_BASE) || flags.contains(LockFlags::FORCE_WRITE) {",
      replace="        let type_info = TypeInfoBlueprint::get_type(node_id, self.api)?;\n\n        if flags.intersects(LockFlags::UNMODIFIED_BASE | LockFlags::FORCE_WRITE) {"),
]
MUTATIONS += [
 dict(name="benign-c43-ruid-ids-skip-the-tombstone", props=["C43"], benign=True, file="radix-engine/src/blueprints/resource/non_fungible/non_fungible_resource_manager.rs",
      find="                api.key_value_entry_remove(handle)?;\n                // Tombstone the non fungible\n                // TODO: RUID non fungibles with no data don't need to go through this process\n                api.key_value_entry_lock(handle)?;\n                api.key_value_entry_close(handle)?;",
      replace="                api.key_value_entry_remove(handle)?;\n                // Tombstone the non fungible (generated RUID ids can never be minted again, so they need none)\n                match &id {\n                    NonFungibleLocalId::RUID(..) => {}\n                    _ => {\n                        api.key_value_entry_lock(handle)?;\n                    }\n                }\n                api.key_value_entry_close(handle)?;"),
]
MUTATIONS += [
 dict(name="benign-c40-lock-test-first-then-early-returns", props=["C40"], benign=True, file="radix-engine/src/blueprints/access_controller/v2/state_machine.rs",
      find="""        match self.state {
            (PrimaryRoleLockingState::Unlocked, _, _, _, _) => {
                if self.controlled_asset.0 .0.is_internal_fungible_vault() {
                    self.controlled_asset
                        .create_proof_of_amount(self.controlled_asset.amount(api)?, api)
                } else {
                    // u32::MAX is used as vault size is limited to maximum bucket size which is constrained
                    // by same costing mechanism so we should never be in any danger of never being able to produce proofs
                    let non_fungible_local_ids = self
                        .controlled_asset
                        .non_fungible_local_ids(u32::MAX, api)?;
                    self.controlled_asset
                        .create_proof_of_non_fungibles(non_fungible_local_ids, api)
                }
            }
            _ => access_controller_runtime_error!(OperationRequiresUnlockedPrimaryRole),
        }
""",
      replace="""        if !matches!(self.state.0, PrimaryRoleLockingState::Unlocked) {
            return access_controller_runtime_error!(OperationRequiresUnlockedPrimaryRole);
        }
        if !self.controlled_asset.0 .0.is_internal_fungible_vault() {
            let non_fungible_local_ids = self
                .controlled_asset
                .non_fungible_local_ids(u32::MAX, api)?;
            return self
                .controlled_asset
                .create_proof_of_non_fungibles(non_fungible_local_ids, api);
        }
        self.controlled_asset
            .create_proof_of_amount(self.controlled_asset.amount(api)?, api)
"""),
 dict(name="benign-c10-no-shortfall-early-return", props=["C10"], benign=True, file="radix-engine/src/blueprints/resource/fungible/fungible_vault.rs",
      find="""        // Take from liquid if needed
        if amount > max_locked {
            let delta = amount
                .checked_sub(max_locked)
                .ok_or(RuntimeError::ApplicationError(
                    ApplicationError::VaultError(VaultError::DecimalOverflow),
                ))?;
            Self::internal_take(delta, api)?;
        }
""",
      replace="""        // Take from liquid if needed
        if amount <= max_locked {
            // already covered by the locked maximum
        } else {
            let delta = amount
                .checked_sub(max_locked)
                .ok_or(RuntimeError::ApplicationError(
                    ApplicationError::VaultError(VaultError::DecimalOverflow),
                ))?;
            Self::internal_take(delta, api)?;
        }
"""),
]
MUTATIONS += [
 dict(name="benign-c40-lock-test-extracted-into-helper", props=["C40"], benign=True, file="radix-engine/src/blueprints/access_controller/v2/state_machine.rs",
      edits=[("radix-engine/src/blueprints/access_controller/v2/state_machine.rs",
              "pub(super) struct AccessControllerCreateProofStateMachineInput;\n",
              "pub(super) struct AccessControllerCreateProofStateMachineInput;\n\nimpl AccessControllerV2Substate {\n    fn ensure_primary_role_unlocked(&self) -> Result<(), RuntimeError> {\n        match self.state {\n            (PrimaryRoleLockingState::Unlocked, _, _, _, _) => Ok(()),\n            _ => access_controller_runtime_error!(OperationRequiresUnlockedPrimaryRole),\n        }\n    }\n}\n"),
             ("radix-engine/src/blueprints/access_controller/v2/state_machine.rs",
              """        match self.state {
            (PrimaryRoleLockingState::Unlocked, _, _, _, _) => {
                if self.controlled_asset.0 .0.is_internal_fungible_vault() {
                    self.controlled_asset
                        .create_proof_of_amount(self.controlled_asset.amount(api)?, api)
                } else {
                    // u32::MAX is used as vault size is limited to maximum bucket size which is constrained
                    // by same costing mechanism so we should never be in any danger of never being able to produce proofs
                    let non_fungible_local_ids = self
                        .controlled_asset
                        .non_fungible_local_ids(u32::MAX, api)?;
                    self.controlled_asset
                        .create_proof_of_non_fungibles(non_fungible_local_ids, api)
                }
            }
            _ => access_controller_runtime_error!(OperationRequiresUnlockedPrimaryRole),
        }
""",
              """        self.ensure_primary_role_unlocked()?;
        if self.controlled_asset.0 .0.is_internal_fungible_vault() {
            self.controlled_asset
                .create_proof_of_amount(self.controlled_asset.amount(api)?, api)
        } else {
            let non_fungible_local_ids = self
                .controlled_asset
                .non_fungible_local_ids(u32::MAX, api)?;
            self.controlled_asset
                .create_proof_of_non_fungibles(non_fungible_local_ids, api)
        }
""")]),
]
