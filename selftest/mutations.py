"""Scratch-copy mutations: each breaks exactly one rule instance, still compiles, and must be reported."""
MUTATIONS = [
 dict(name="c13-write-lock-with-readers", props=["C13"], file="radix-engine/src/kernel/substate_locks.rs",
      find="                    if *n != 0 {\n                        return Err(SubstateLockError);\n                    }\n",
      replace="", expect=["reader count == 0"]),
 dict(name="c13-set_substate-skips-lock-test", props=["C13"], file="radix-engine/src/kernel/substate_io.rs",
      find="        if self\n            .substate_locks\n            .is_locked(node_id, partition_num, &substate_key)\n        {",
      replace="        if false && self\n            .substate_locks\n            .is_locked(node_id, partition_num, &substate_key)\n        {",
      expect=["set_substate|not-locked"]),
 dict(name="c13-open-always-readonly-false", props=["C13"], file="radix-engine/src/kernel/substate_io.rs",
      find="            !flags.contains(LockFlags::MUTABLE),\n            lock_data,",
      replace="            flags.contains(LockFlags::UNMODIFIED_BASE),\n            lock_data,",
      expect=["read_only-is-not-MUTABLE"]),
]
MUTATIONS += [
 dict(name="c51-kvstore-open-skips-status-check", props=["C51"], file="radix-engine/src/system/system.rs",
      find="            if let LockStatus::Locked = lock_status {\n                return Err(RuntimeError::SystemError(SystemError::KeyValueEntryLocked));\n            }",
      replace="            let _ = lock_status;", expect=["key_value_store_open_entry|status-guard-before-ok"]),
 dict(name="c51-field-lock-accepts-read-handle", props=["C51"], file="radix-engine/src/system/system.rs",
      find="            SystemLockData::Field(FieldLockData::Write { .. }) => {}\n            _ => {\n                return Err(RuntimeError::SystemError(SystemError::NotAFieldWriteHandle));\n            }",
      replace="            SystemLockData::Field(..) => {}\n            _ => {\n                return Err(RuntimeError::SystemError(SystemError::NotAFieldWriteHandle));\n            }",
      expect=["field_lock|write-handle"]),
 dict(name="c50-drop-object-blueprint-check-inverted-to-package", props=["C50"], file="radix-engine/src/system/system.rs",
      find="            if Some(info.blueprint_info.blueprint_id.clone()) != actor.blueprint_id() {",
      replace="            if actor.blueprint_id().is_none() {", expect=["drop_object|actor-identity"]),
 dict(name="c50-globalize-skips-package-check", props=["C50"], file="radix-engine/src/system/system.rs",
      find="        if Some(reserved_blueprint_id.package_address) != actor.package_address() {",
      replace="        if actor.package_address().is_none() {", expect=["reserved package == actor package"]),
]
