#!/bin/bash
# run every registered hand mutation / benign control in N parallel workers (separate scratch worktrees and fact caches under /tmp)
# usage: selftest/run_all_parallel.sh [N=3]   -> logs /tmp/selftest-par-<i>.log, summary /verif/selftest/LAST_RUN.txt
N=${1:-3}
cd "$(dirname "$0")/.."
python3 - "$N" <<'PY'
import sys; sys.path.insert(0,'selftest'); import mutations
n=int(sys.argv[1])
names=[m['name'] for m in mutations.MUTATIONS]
for i in range(n):
    open(f'/tmp/selftest-par-{i}.list','w').write(" ".join(names[i::n]))
PY
for i in $(seq 0 $((N-1))); do
  SELFTEST_WT=/tmp/verif-selftest-wt-$i SELFTEST_CACHE=/tmp/verif-selftest-cache-$i nohup python3 selftest/run.py $(cat /tmp/selftest-par-$i.list) > /tmp/selftest-par-$i.log 2>&1 &
done
wait
{ date; for i in $(seq 0 $((N-1))); do grep -v "^   " /tmp/selftest-par-$i.log; done; } > selftest/LAST_RUN.txt
grep -c "^CAUGHT\|^SILENT" selftest/LAST_RUN.txt
