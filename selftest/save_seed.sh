#!/bin/bash
# save a confirmed sub-agent mutation: save_seed.sh <worktree> <seeded-name>
wt=$1; name=$2; d=/verif/seeded/$name; mkdir -p $d; cp $wt/MUTATION/patch.diff $wt/MUTATION/demo.diff $d/
python3 - "$wt" "$d" <<'PY'
import json,sys
wt,d=sys.argv[1],sys.argv[2]
m=json.load(open(wt+'/MUTATION/meta.json'))
m['confirmed_by_me']={'ran':'selftest/confirm_seeded.sh '+wt+' (demo_cmd with the patch applied, then with it reverted, in the agent\'s scratch worktree)',
 'with_patch':open(wt+'/MUTATION/confirm_with.log').read().strip().splitlines()[-4:], 'without_patch':open(wt+'/MUTATION/confirm_without.log').read().strip().splitlines()[-4:],
 'existing_tests':'as listed under existing_tests_run (run by the sub-agent with the patch applied); not re-run in full by me'}
json.dump(m,open(d+'/meta.json','w'),indent=1)
PY
git -C /repo worktree remove --force $wt
echo saved $d
