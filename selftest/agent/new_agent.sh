#!/bin/bash
# prepare a scratch worktree + prompt for a mutation sub-agent: new_agent.sh <Cnn>
# (the agent gets only the property text and its own worktree; nothing from /verif)
id=$1; mkdir -p /tmp/mut
python3 - "$id" <<'PY'
import json,sys
id=sys.argv[1]
for l in open('/verif/properties.jsonl'):
    d=json.loads(l)
    if d['id']==id:
        open(f'/tmp/mut/prop-{id}.json','w').write(json.dumps(d,indent=1))
PY
git -C /repo worktree add --detach /tmp/mut/$id >/dev/null 2>&1
python3 - "$id" <<'PY'
import sys
id=sys.argv[1]
t=open('/verif/selftest/agent/PROMPT.tmpl').read()
t=t.replace('@PROP@',open(f'/tmp/mut/prop-{id}.json').read().strip()).replace('@WT@',f'/tmp/mut/{id}').replace('@ID@',id)
open(f'/tmp/mut/prompt-{id}.txt','w').write(t)
PY
echo "/tmp/mut/prompt-$id.txt"
