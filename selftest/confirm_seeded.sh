#!/bin/bash
# confirm a sub-agent mutation in its own scratch worktree: demo fails with the patch, passes without it.
# usage: confirm_seeded.sh <worktree> ; reads MUTATION/meta.json demo_cmd
WT=$1
cd "$WT" || exit 2
CMD=$(python3 -c "import json;print(json.load(open('MUTATION/meta.json'))['demo_cmd'])")
echo "== demo_cmd: $CMD"
echo "== WITH patch"
( eval "$CMD" ) > MUTATION/confirm_with.log 2>&1; W=$?
tail -5 MUTATION/confirm_with.log
git apply -R MUTATION/patch.diff || { echo "cannot revert patch"; exit 2; }
echo "== WITHOUT patch"
( eval "$CMD" ) > MUTATION/confirm_without.log 2>&1; WO=$?
tail -5 MUTATION/confirm_without.log
git apply MUTATION/patch.diff
echo "RESULT with_patch_exit=$W without_patch_exit=$WO"
if [ $W -ne 0 ] && [ $WO -eq 0 ]; then echo CONFIRMED; else echo NOT-CONFIRMED; fi
