#!/usr/bin/env python3
"""Run the registered checks against the seeded (sub-agent) mutations kept under /verif/seeded/<id>/.
Each patch is applied to a scratch git worktree of /repo (never /repo itself), the check of the broken property
(and optionally every check) is run against it, and the verdicts are tabulated in seeded/RESULTS.json.
usage: selftest/seeded.py [-k] [--all-checks] [id ...]"""
import json, os, subprocess, sys, shutil, time
HERE = os.path.dirname(os.path.abspath(__file__)); VERIF = os.path.dirname(HERE)
WT = os.environ.get("SEEDED_WT", "/tmp/verif-seeded-wt"); CACHE = os.environ.get("SEEDED_CACHE", "/tmp/verif-seeded-cache")

def sh(*a, **k): return subprocess.run(a, capture_output=True, text=True, **k)

def main():
    ids = [a for a in sys.argv[1:] if not a.startswith("-")]
    keep = "-k" in sys.argv; allc = "--all-checks" in sys.argv
    sd = os.path.join(VERIF, "seeded")
    sel = sorted(d for d in os.listdir(sd) if os.path.isdir(os.path.join(sd, d)) and (not ids or d in ids))
    if not os.path.isdir(WT):
        r = sh("git", "-C", "/repo", "worktree", "add", "--detach", WT)
        if r.returncode: print(r.stderr); return 2
    sh("git", "-C", WT, "checkout", "--detach", sh("git", "-C", "/repo", "rev-parse", "HEAD").stdout.strip())
    sh("git", "-C", WT, "checkout", "--", ".")
    manifest = json.load(open(os.path.join(VERIF, "MANIFEST.json")))
    claimed = [c["property_id"] for c in manifest["checks"]]
    env = dict(os.environ, VERIF_REPO=WT, VERIF_CACHE=CACHE, VERIF_KEEP_TARGET="1", VERIF_EVIDENCE_DIR=os.path.join(CACHE, "evidence"))
    resf = os.path.join(sd, "RESULTS.json")
    results = json.load(open(resf)) if os.path.exists(resf) else {}
    for d in sel:
        meta = json.load(open(os.path.join(sd, d, "meta.json")))
        prop = meta["property"]
        r = sh("git", "-C", WT, "apply", os.path.join(sd, d, "patch.diff"))
        if r.returncode:
            print(f"{d}: patch does not apply: {r.stderr.strip()[:200]}"); results[d] = {"property": prop, "status": "patch-does-not-apply"}; continue
        t0 = time.time()
        props = claimed if allc else ([prop] if prop in claimed else [])
        fired = {}
        for p in props:
            rr = sh(os.path.join(VERIF, "bin", "check"), p, env=env)
            out = rr.stdout + rr.stderr
            fired[p] = {"exit": rr.returncode, "violation": f"VIOLATION property={p}" in out,
                        "fails": [l for l in out.splitlines() if l.startswith("FAIL ")][:6], "broken": "BROKEN" in out}
        sh("git", "-C", WT, "checkout", "--", ".")
        caught = bool(fired.get(prop, {}).get("violation"))
        others = [p for p, v in fired.items() if p != prop and v["violation"]]
        status = "CAUGHT" if caught else ("NOT-CLAIMED" if prop not in claimed else "MISSED")
        print(f"{status:11} {d:32} property={prop} other_alarms={others} {time.time()-t0:.0f}s", flush=True)
        for l in fired.get(prop, {}).get("fails", [])[:3]: print("      " + l[:260])
        results[d] = {"property": prop, "status": status, "checks_run": props, "alarms": {p: v["fails"] for p, v in fired.items() if v["violation"]},
                      "broken_checks": [p for p, v in fired.items() if v["broken"]]}
        json.dump(results, open(resf, "w"), indent=1, sort_keys=True)
    if not keep:
        sh("git", "-C", "/repo", "worktree", "remove", "--force", WT); shutil.rmtree(CACHE, ignore_errors=True)
    return 0

if __name__ == "__main__":
    sys.exit(main())
