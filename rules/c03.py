"""C03 Every committed transaction conserves resources — ex-nihilo construction table, mint/burn pairing on the same amount."""
import re
from lib import *
from resmod import *

LIQ = r"radix_engine_interface::blueprints::resource::resource::Liquid(Non)?FungibleResource"
# who may fabricate liquid value (call Liquid*::new/default, or build the struct directly)
FABRICATORS = {
    r"^radix_engine_interface::blueprints::resource::resource::Liquid(Non)?FungibleResource::(new|take_by_amount|take_by_ids|take_all|default)$": "the types' own constructors / take_* (moves, not creation)",
    r"^<radix_engine_interface::blueprints::resource::resource::Liquid(Non)?FungibleResource as (core::default::Default|core::clone::Clone|sbor::)": "derived/default impls",
    re.escape(FRM) + r"::(create_bucket|create_empty_vault|create_with_initial_supply)$": "bucket/vault object creation and initial supply (mint path)",
    re.escape(NRM) + r"::(create_bucket|create_empty_vault|create_with_initial_supply|create_ruid_with_initial_supply)$": "bucket/vault object creation and initial supply (mint path)",
    re.escape(FV) + r"::unlock_amount$|" + re.escape(FB) + r"::unlock_amount$": "locked -> liquid move",
    re.escape(NV) + r"::unlock_non_fungibles$|" + re.escape(NB) + r"::unlock_non_fungibles$": "locked -> liquid move",
    re.escape(NV) + r"::(internal_take_non_fungibles|internal_take_by_amount)$": "ids removed from the vault index become the taken resource",
    r"system_callback::System::finalize_fees_for_commit$": "fee finalisation: royalty credit, zero accumulator, free credit",
    r"SystemCostingApi<[^>]*>>::lock_fee$": "clone of the locked fee handed to the fee reserve",
}


def run(ctx):
    F = ctx.F
    ctx.rule("T4 ex-nihilo table: Liquid{Fungible,NonFungible}Resource values are fabricated (new/default/clone/struct literal) only by "
             "the audited functions: the types' own take_*, mint/creation paths, locked->liquid moves, NF vault takes, fee finalisation")
    fab = {}
    for f in F.fns.values():
        if any(re.search(LIQ + r"$", s) for s in f.structs):
            fab.setdefault(f.root, []).append("struct literal")
        for c in f.calls:
            if re.search(LIQ + r"::(new|default)$", c[0]) or re.search(r"^<" + LIQ + r" as core::(default::Default>::default|clone::Clone>::clone)$", c[0]):
                fab.setdefault(f.root, []).append(c[0].split("::")[-1])
    check_who_may(ctx, "fabricates-liquid-value", fab, FABRICATORS, "fabrication of liquid resource value")
    ctx.floor("fabricates-liquid-value", len(fab), 15)

    ctx.rule("T2/T8 mint/burn pairing: on every path to Ok, mint creates the bucket, emits the Mint event and (when TrackTotalSupply) updates "
             "total supply — all with the same amount operand; burn_internal emits the Burn event and decrements supply by the dropped "
             "bucket's amount; create_bucket elsewhere is fed only by what was actually taken")
    # interprocedural must-pass-through over the manager's own methods: every entry point that (transitively) drops a bucket stores the new
    # total supply on every path to Ok (or takes the TrackTotalSupply-disabled edge) — in the function itself or in a manager method it calls
    meths = {nm: f for nm, f in F.fns.items() if nm.startswith(FRM + "::") and f.root == nm}
    callees = {nm: {c[0] for c in f.calls if c[0] in meths and c[0] != nm} for nm, f in meths.items()}
    called = set().union(*callees.values()) if callees else set()

    def trans(nm, pred, seen=None):
        seen = seen or set()
        if nm in seen:
            return False
        seen.add(nm)
        return pred(nm) or any(trans(c, pred, seen) for c in callees.get(nm, ()))
    drops = lambda nm: any(c[0].endswith("::drop_fungible_bucket") for c in meths[nm].calls)
    memo = {}

    def must_update(nm, depth=0):
        if nm in memo:
            return memo[nm]
        memo[nm] = False
        bm = ctx.body(nm)
        oks_ = set(bm.ok_exits())
        wr = [bb for bb, t in bm.calls(r"::field_write_typed$") if "TotalSupply" in t["ga"]]
        via = [bb for bb, t in bm.calls(re.escape(FRM) + r"::\w+$") if t["f"] in meths and t["f"] != nm and depth < 4 and must_update(t["f"], depth + 1)]
        e, _ = pass_edges(bm, G_bool_call(r"::actor_is_feature_enabled$", False))
        ok = bool(oks_) and bool(wr or via) and not (bm.reach((0,), blocked_edges=e, blocked_blocks=wr + via) & oks_)
        memo[nm] = ok
        return ok
    n = FRM + "::mint"
    if ctx.anchor(n):
        b = ctx.body(n)
        oks = set(b.ok_exits())
        for what, pat in (("create_bucket", re.escape(FRM) + r"::create_bucket$"), ("MintFungibleResourceEvent", r"Runtime::emit_event$"),
                          ("mintable check", re.escape(FRM) + r"::assert_mintable$"), ("amount check", r"::check_mint_amount$")):
            blocks = call_blocks(b, pat)
            ok = bool(blocks) and not (b.reach((0,), blocked_blocks=blocks) & oks)
            ctx.ob(f"mint|{what}-on-every-path", ok, f"{what}: {len(blocks)} site(s), on every path to Ok: {ok}", b.loc(blocks[0]) if blocks else b.loc())
        # supply update (here or in a manager helper) only skipped on the feature-disabled arm
        ctx.ob("mint|supply-updated-when-tracked", must_update(n), "with TrackTotalSupply enabled every path to Ok stores the new total supply (locally or through a manager method)", b.loc())
        # same amount
        srcs = {}
        for bb, t in b.calls(re.escape(FRM) + r"::create_bucket$"):
            srcs["create_bucket"] = origin_names(b, t["args"][0])
        for bb, t in b.calls(r"Runtime::emit_event$"):
            srcs["event"] = {x for x in origin_names(b, t["args"][1], deep=True) if x.startswith("param:")}
        for bb, t in b.calls(r"::checked_add$"):
            srcs["supply+="] = {x for x in origin_names(b, t["args"][1]) if x.startswith("param:")}
        for bb, t in b.calls(re.escape(FRM) + r"::\w+$"):
            if t["f"] in meths and t["f"] != n and memo.get(t["f"]):
                srcs["supply+="] = set().union(*[{x for x in origin_names(b, a) if x.startswith("param:") and x != f"param:{b.argc}"} for a in t["args"][:-1]] or [set()])
        ctx.ob("mint|same-amount", len(srcs) == 3 and all(v == {"param:1"} for v in srcs.values()), f"amount operands: {srcs}", b.loc())
    n = FRM + "::burn_internal"
    if ctx.anchor(n):
        b = ctx.body(n)
        oks = set(b.ok_exits())
        for what, pat in (("drop_fungible_bucket", r"::drop_fungible_bucket$"), ("BurnFungibleResourceEvent", r"Runtime::emit_event$"),
                          ("burnable check", re.escape(FRM) + r"::assert_burnable$")):
            blocks = call_blocks(b, pat)
            ok = bool(blocks) and not (b.reach((0,), blocked_blocks=blocks) & oks)
            ctx.ob(f"burn|{what}-on-every-path", ok, f"{what}: on every path to Ok: {ok}", b.loc(blocks[0]) if blocks else b.loc())
        ev = [origin_names(b, t["args"][1], deep=True) for _, t in b.calls(r"Runtime::emit_event$")]
        ok = bool(ev) and all(any("drop_fungible_bucket" in x for x in s_) for s_ in ev)
        ctx.ob("burn|event-amount-is-the-dropped-amount", ok, "the Burn event amount originates from the dropped bucket", b.loc())
    EMPTY_ONLY = {"drop_empty_bucket": "drops a bucket only on the amount.is_zero() arm (decided by C09): the supply does not change"}
    entries = sorted(nm for nm in meths if nm not in called and trans(nm, drops) and nm.rsplit("::", 1)[-1] not in EMPTY_ONLY)
    for k_, why in EMPTY_ONLY.items():
        ctx.note(f"burn entry-point exception {k_}: {why}")
    ctx.floor("burn|entry-points", len(entries), 2)
    for nm in entries:
        ctx.ob(f"burn|{nm.rsplit('::', 1)[1]}|supply-updated-when-tracked", must_update(nm),
               f"{nm.rsplit('::', 1)[1]} drops a bucket (transitively) and stores the new total supply on every path to Ok: {must_update(nm)}", meths[nm].loc())
    # the decrement is the dropped amount, wherever the subtraction lives
    subs = 0
    for nm in meths:
        bm = ctx.body(nm)
        wr = [bb for bb, t in bm.calls(r"::field_write_typed$") if "TotalSupply" in t["ga"]]
        for _, t in bm.calls(r"::checked_sub$"):
            if wr:
                subs += 1
                srcs = origin_names(bm, t["args"][1], deep=True)
                ok = any("drop_fungible_bucket" in x or x.startswith("param:") for x in srcs)
                ctx.ob(f"burn|{nm.rsplit('::', 1)[1]}|decrement-is-the-dropped-amount", ok, f"supply decrement operand originates from {sorted(x.split('::')[-1] for x in srcs)[:5]}", bm.loc())
    if not subs:
        ctx.note("no checked_sub next to the total-supply write (the decrement may be expressed as adding a negated amount): decrement provenance not decided")
    # non fungible: update_total_supply + event on each mint path, burn
    for fn, sign in (("mint_non_fungible", "+"), ("mint_ruid_non_fungible", "+"), ("mint_single_ruid_non_fungible", "+"), ("burn_internal", "-")):
        n = NRM + "::" + fn
        if ctx.anchor(n):
            b = ctx.body(n)
            oks = set(b.ok_exits())
            for what, pat in (("update_total_supply", re.escape(NRM) + r"::update_total_supply$"), ("event", r"Runtime::emit_event$")):
                blocks = call_blocks(b, pat)
                ok = bool(blocks) and not (b.reach((0,), blocked_blocks=blocks) & oks)
                ctx.ob(f"nf-{fn}|{what}-on-every-path", ok, f"{what}: on every path to Ok: {ok}", b.loc(blocks[0]) if blocks else b.loc())
            if sign == "+":
                blocks = call_blocks(b, re.escape(NRM) + r"::create_bucket$")
                cb = b.calls(re.escape(NRM) + r"::create_bucket$")
                src_ok = bool(cb) and all(any("create_non_fungibles" in x for x in origin_names(b, t["args"][0], deep=True)) for _, t in cb)
                ctx.ob(f"nf-{fn}|bucket-holds-created-ids", src_ok, "the minted bucket contains exactly the ids returned by create_non_fungibles", b.loc())
    n = NRM + "::update_total_supply"
    if ctx.anchor(n):
        b = ctx.body(n)
        wr = [bb for bb, t in b.calls(r"::field_write_typed$") if "TotalSupply" in t["ga"]]
        e, bl = pass_edges(b, G_bool_call(r"::actor_is_feature_enabled$", False))
        r = b.reach((0,), blocked_edges=e, blocked_blocks=wr)
        ctx.ob("nf-update_total_supply|stores-when-tracked", bool(wr) and bool(bl) and not (r & set(b.ok_exits())), "with TrackTotalSupply enabled every path to Ok stores the supply", b.loc())
    # create_bucket callers outside mint: amount comes from internal_take
    for bp, rm in ((FV, FRM), (NV, NRM)):
        for root, sites in who_calls(F, re.escape(rm) + r"::create_bucket$").items():
            if not root.startswith(bp):
                continue
            b = ctx.body(root)
            for bb, t in b.calls(re.escape(rm) + r"::create_bucket$"):
                names = origin_names(b, t["args"][0], deep=True)
                ok = any(re.search(r"::internal_take", x) for x in names)
                ctx.ob(f"create_bucket-from-taken|{root.split('::')[-2]}::{root.split('::')[-1]}", ok, f"bucket amount/ids originate from internal_take*: {ok}", b.loc(bb))
    ctx.assume("the conservation equality itself (net vault change = minted - burned), XRD emission amounts and arithmetic are not decided")
