"""C42 Validator staking and emissions never create value — the clauses visible in the code's shape: membership/size/order of the active
validator set, and the 'ratio is read before the pool changes' ordering of stake / unstake.  Proportionality and emission bounds are numerical."""
import re
from lib import *

V = "radix_engine::blueprints::consensus_manager::validator::ValidatorBlueprint"
CM = "radix_engine::blueprints::consensus_manager::consensus_manager::ConsensusManagerBlueprint"
IDX = r"actor_sorted_index_api::SystemActorSortedIndexApi(<[^>]*>)?(>)?::actor_sorted_index_(insert|insert_typed|remove|remove_typed)$"


def run(ctx):
    F = ctx.F
    ctx.rule("T2: ValidatorBlueprint::to_sorted_key builds Some(index key) only behind registered == true and stake.is_zero() == false "
             "(the stake index holds registered validators with non-zero stake only)")
    n = V + "::to_sorted_key"
    if ctx.anchor(n):
        b = ctx.body(n)
        somes = agg_blocks(b, r"core::option::Option$", "Some")

        def registered(body):
            e, bl = [], []
            for bb, tru, fal, si in body.bool_guards(lambda a: a.kind == "param" and a.what == 1 and not a.proj):
                e.append((bb, tru)); bl.append(bb)
            return e, bl
        check_guarded(ctx, "to_sorted_key|some-only-if-registered-and-staked", b, somes,
                      [G_custom(registered, "registered == true"), G_bool_call(r"decimal::Decimal::is_zero$", False)], "construction of Some(sorted key)")
        pre = b.calls(r"::create_sort_prefix_from_stake$")
        ok = len(pre) == 1 and origin_names(b, pre[0][1]["args"][0]) == {"param:2"}
        ctx.ob("to_sorted_key|prefix-from-the-stake", ok, "the sort prefix is computed from the stake parameter", b.loc())
    ctx.rule("T2/T4: index_update derives the key from to_sorted_key(new_registered, new_stake, address); UpdateStake only when the new key is Some, "
             "Remove only when it is None, Create only through Option::map on it; index entries are written only by update_validator, which "
             "only index_update and update_key call")
    n = V + "::index_update"
    if ctx.anchor(n):
        b = ctx.body(n)
        tk = b.calls(r"::to_sorted_key$")
        ok = len(tk) == 1 and origin_names(b, tk[0][1]["args"][0]) == {"param:2"} and origin_names(b, tk[0][1]["args"][1]) == {"param:3"}
        ctx.ob("index_update|key-from-new-state", ok, "to_sorted_key is given the *new* registered flag and the *new* stake", b.loc())
        newkey = lambda a: a.kind == "call" and a.what.endswith("::to_sorted_key")
        check_guarded(ctx, "index_update|UpdateStake-only-if-new-key", b, agg_blocks(b, r"::UpdateSecondaryIndex$", "UpdateStake"),
                      [G_enum(r"core::option::Option$", ["Some"], newkey)], "construction of UpdateSecondaryIndex::UpdateStake")
        check_guarded(ctx, "index_update|Remove-only-if-no-new-key", b, agg_blocks(b, r"::UpdateSecondaryIndex$", "Remove"),
                      [G_enum(r"core::option::Option$", ["None"], newkey)], "construction of UpdateSecondaryIndex::Remove")
        maps = b.calls(r"core::option::Option(<[^>]*>)?::map$")
        ok = len(maps) == 1 and any(x.endswith("::to_sorted_key") for x in origin_names(b, maps[0][1]["args"][0]))
        ctx.ob("index_update|Create-through-map-of-new-key", ok, "Create is built by Option::map over the new key", b.loc())
        cr = {}
        for f in F.fns.values():
            if any(v.endswith("::UpdateSecondaryIndex::Create") for v in f.vars):
                cr[f.name] = f
        check_who_may(ctx, "who-constructs-Create", cr, {r"ValidatorBlueprint::index_update::\{closure#0\}$": "the map closure",
                                                           r"^<.*UpdateSecondaryIndex as (core::clone::Clone|sbor::decode::Decode<.*>)>::": "derived Clone/Decode"}, "constructor of UpdateSecondaryIndex::Create")
        ctx.floor("who-constructs-Create", len(cr), 1)
        rets = b.ok_exits()
        ctx.ob("index_update|returns-new-key", bool(rets), "index_update returns Ok(new key)", b.loc())
    w = who_calls(F, IDX, scope=lambda f: f.name.startswith("radix_engine::blueprints::consensus_manager::"))
    check_who_may(ctx, "who-writes-the-stake-index", w, {re.escape(V) + r"::update_validator$": "the index writer"}, "writer of the validator stake index")
    ctx.floor("who-writes-the-stake-index", len(w), 1)
    uv = who_calls(F, re.escape(V) + r"::update_validator$")
    check_who_may(ctx, "who-calls-update_validator", uv, {re.escape(V) + r"::index_update$": "re-index on stake/registration change",
                                                          re.escape(V) + r"::update_key$": "public key change of an already indexed validator"}, "caller of update_validator")
    ctx.floor("who-calls-update_validator", len(uv), 2)
    ctx.rule("T3 pairing: every ValidatorBlueprint function that moves XRD into/out of the stake vault or flips is_registered calls index_update "
             "and stores the returned key in the substate's sorted_key")
    movers = {}
    for name, f in F.fns.items():
        if not name.startswith(V + "::") or f.root != name:
            continue
        reads_vault = any(x.endswith("ValidatorSubstate.stake_xrd_vault_id") for x in f.fr)
        moves = False
        if reads_vault and any(re.search(r"NativeVault>::(put|take|take_advanced)$", c[0]) for c in f.calls):
            # the receiver of the put/take is (possibly) Vault(<substate>.stake_xrd_vault_id)
            b = ctx.body(name)
            for bb, t in b.calls(r"NativeVault>::(put|take|take_advanced)$"):
                for a in b.origins(t["args"][0]):
                    if a.kind != "agg":
                        continue
                    for st in b.stmts(a.bb):
                        if st["k"] == "=" and st["rv"]["k"] == "agg" and (st["rv"].get("adt") or "").endswith("::Vault"):
                            if any(x.proj and x.proj[-1] == ".stake_xrd_vault_id" for o in st["rv"]["ops"] for x in b.origins(o)):
                                moves = True
        flips = any(x.endswith("ValidatorSubstate.is_registered") for x in f.fw)
        if moves or flips:
            movers[name] = f
    ctx.floor("stake-movers", len(movers), 5)
    for name, f in sorted(movers.items()):
        short = name.rsplit("::", 1)[-1]
        iu = any(c[0].endswith("::index_update") for c in f.calls)
        st = any(x.endswith("ValidatorSubstate.sorted_key") for x in f.fw)
        ctx.ob(f"mover-reindexes|{short}", iu and st, f"{short}: calls index_update={iu}, stores sorted_key={st}", F.fns[name].loc())
    ctx.rule("T3/argument origin in epoch_change: the next ActiveValidatorSet is collect(map(take(config.max_validators)(into_iter(scan)))) and the scan "
             "result is sorted by stake, reversed, before the take")
    n = CM + "::epoch_change"
    if ctx.anchor(n):
        b = ctx.body(n)
        ok = False
        site = None
        for bb in agg_blocks(b, r"::ActiveValidatorSet$"):
            for s in b.stmts(bb):
                if s["k"] == "=" and s["rv"]["k"] == "agg" and (s["rv"].get("adt") or "").endswith("::ActiveValidatorSet"):
                    site = bb
                    cur = s["rv"]["ops"][0]
                    chain = []
                    for want in ("Iterator::collect", "Iterator::map", "Iterator::take", "IntoIterator>::into_iter", "actor_sorted_index_scan_typed"):
                        og = b.origins(cur)
                        cs = [a for a in og if a.kind == "call" and a.what.endswith(want)]
                        if len(cs) != 1 or any(a.kind != "call" for a in og):
                            chain.append(f"!{want}")
                            break
                        chain.append(want.split("::")[-1])
                        t = b.term(cs[0].bb)
                        if want == "Iterator::take":
                            lim = b.origins(t["args"][1])
                            okl = len(lim) == 1 and lim[0].kind == "param" and lim[0].proj == (".max_validators",)
                            ctx.ob("epoch_change|take-max_validators", okl, f"take() limit originates from {[str(a) for a in lim]}", b.loc(cs[0].bb))
                            take_bb = cs[0].bb
                        cur = t["args"][0]
                    ok = len(chain) == 5 and not any(c.startswith("!") for c in chain)
                    ctx.ob("epoch_change|active-set-chain", ok, f"ActiveValidatorSet.validators_by_stake_desc <- {' <- '.join(chain)}", b.loc(bb))
                    if ok:
                        sb = b.calls(r"\[T\]::sort_by$|slice::<impl \[T\]>::sort_by$|::sort_by$")
                        oks = len(sb) == 1 and any(x.endswith("actor_sorted_index_scan_typed") for x in origin_names(b, sb[0][1]["args"][0])) \
                            and b.unreachable_without([take_bb], [(sb[0][0], s_) for s_ in b.succs(sb[0][0])])[0]
                        ctx.ob("epoch_change|sorted-before-take", oks, "the scan result is sort_by'ed on every path before the take", b.loc(sb[0][0]) if sb else b.loc())
                        if sb:
                            cl = [a for a in b.origins(sb[0][1]["args"][1]) if a.kind == "agg"]
                            cname = None
                            for x in ctx.bodies_of(n):
                                if x.name != n and x.calls(r"Decimal as core::cmp::Ord>::cmp$"):
                                    cname = x
                            okc = cname is not None and len(cname.calls(r"core::cmp::Ordering::reverse$")) == 1
                            ctx.ob("epoch_change|sort-closure-is-stake-descending", okc, "the sort closure compares Decimal stakes and reverses the ordering (descending)", cname.loc() if cname else b.loc())
        ctx.ob("epoch_change|active-set-built", site is not None, "ActiveValidatorSet construction found", b.loc())
    ctx.rule("T3 + argument origin (stake): the stake units minted are exactly calculate_stake_unit_amount(bucket amount, vault amount, unit supply), "
             "computed before the XRD is put into the stake vault; (unstake): the XRD taken is exactly calculate_redemption_value(units), computed "
             "before the units are burnt")
    n = V + "::stake_internal"
    if ctx.anchor(n):
        b = ctx.body(n)
        calc = b.calls(r"::calculate_stake_unit_amount$")
        mint = b.calls(r"ResourceManager::mint_fungible$")
        put = b.calls(r"NativeVault>::put$")
        ok = len(calc) == 1 and len(mint) == 1 and len(put) == 1
        ctx.ob("stake|sites", ok, f"calc={len(calc)} mint={len(mint)} put={len(put)}", b.loc())
        if ok:
            o = origin_names(b, mint[0][1]["args"][1])
            ctx.ob("stake|mint-amount-is-the-calculated-amount", o == {"call:" + V + "::calculate_stake_unit_amount"}, f"mint_fungible amount originates from {sorted(x.split('::')[-1] for x in o)}", b.loc(mint[0][0]))
            a = [sorted(x.split("::")[-1] for x in origin_names(b, x_)) for x_ in calc[0][1]["args"]]
            ctx.ob("stake|ratio-operands", a == [["amount"], ["amount"], ["total_supply"]], f"calculate_stake_unit_amount operands originate from {a}", b.loc(calc[0][0]))
            ctx.ob("stake|ratio-read-before-pool-changes", calc[0][0] not in b.reach((put[0][0],)) and put[0][0] in b.reach((calc[0][0],)),
                   "the unit amount is calculated before the XRD is put into the stake vault, never after", b.loc(calc[0][0]))
    n = V + "::unstake"
    if ctx.anchor(n):
        b = ctx.body(n)
        calc = b.calls(r"::calculate_redemption_value$")
        burn = b.calls(r"ResourceManager::burn$")
        take = b.calls(r"NativeVault>::take$")
        ok = len(calc) == 1 and len(burn) == 1 and len(take) == 1
        ctx.ob("unstake|sites", ok, f"calc={len(calc)} burn={len(burn)} take={len(take)}", b.loc())
        if ok:
            o = origin_names(b, take[0][1]["args"][1])
            ctx.ob("unstake|taken-amount-is-the-redemption-value", o == {"call:" + V + "::calculate_redemption_value"}, f"stake-vault take amount originates from {sorted(x.split('::')[-1] for x in o)}", b.loc(take[0][0]))
            ctx.ob("unstake|ratio-read-before-burn", calc[0][0] not in b.reach((burn[0][0],)) and burn[0][0] in b.reach((calc[0][0],)),
                   "the redemption value is calculated before the stake units are burnt, never after", b.loc(calc[0][0]))
    ctx.rule("T2: calculate_stake_unit_amount mints 1:1 (returns the staked XRD amount unchanged) only when the stake *vault* is empty "
             "(total_stake_xrd_amount.is_zero()); with XRD in the pool — e.g. an emission paid after every unit was burnt — units are always "
             "minted through the supply/xrd ratio, so a newcomer cannot acquire the existing pool 1:1")
    n = V + "::calculate_stake_unit_amount"
    if ctx.anchor(n):
        b = ctx.body(n)
        one_to_one = []
        for i in range(b.n):
            for st in b.stmts(i):
                if st["k"] == "=" and st["p"] == [0] and st["rv"]["k"] == "agg" and st["rv"].get("var") == "Ok" and st["rv"]["ops"]:
                    if origin_names(b, st["rv"]["ops"][0]) == {"param:1"}:
                        one_to_one.append(i)

        def xrd_pool_empty(body):
            e, bl = [], []
            for bb, tru, fal, si in body.call_bool_guards(r"::is_zero$"):
                for a in si["atoms"]:
                    if a.kind == "call" and a.what.endswith("::is_zero") and origin_names(body, a.extra["args"][0]) == {"param:2"}:
                        e.append((bb, tru)); bl.append(bb)
            return e, bl
        check_guarded(ctx, "stake-units|one-to-one-only-for-an-empty-xrd-pool", b, one_to_one,
                      [G_custom(xrd_pool_empty, "total_stake_xrd_amount.is_zero() == true")], "1:1 mint (Ok(xrd_amount))", min_targets=1)
    ctx.assume("proportionality of minted units / redeemed XRD, emission and reward bounds per epoch are arithmetic over histories and NOT decided; "
               "the stake-sorted index order itself (u16 bucket prefix) is value-level, only the final sort-descending + take(max) shape is decided")
