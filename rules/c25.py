"""C25 Rounding follows the declared rounding modes — the mode -> direction table (finite table agreement; no numerical clause)."""
import re
from lib import *
from c15 import arm_regions

RM = "radix_common::math::rounding_mode::"
RS = RM + "ResolvedRoundingStrategy"
EXPECT = {  # RoundingMode variant -> (constructed strategy | helper called, equal-strategy helper for the nearest modes)
    "ToPositiveInfinity": ("agg:RoundUp", None),
    "ToNegativeInfinity": ("agg:RoundDown", None),
    "ToZero": ("call:towards_zero", None),
    "AwayFromZero": ("call:away_from_zero", None),
    "ToNearestMidpointTowardZero": ("call:from_midpoint_ordering", "call:towards_zero"),
    "ToNearestMidpointAwayFromZero": ("call:from_midpoint_ordering", "call:away_from_zero"),
    "ToNearestMidpointToEven": ("call:from_midpoint_ordering", "agg:RoundToEven"),
}


def arm_facts(b, region):
    out = set()
    for i in region:
        for s in b.stmts(i):
            if s["k"] == "=" and s["rv"]["k"] == "agg" and s["rv"].get("adt") == RS:
                out.add("agg:" + s["rv"]["var"])
        t = b.term(i)
        if t["k"] == "call" and t["f"].startswith(RS + "::"):
            out.add("call:" + t["f"].rsplit("::", 1)[-1])
    return out


def run(ctx):
    F = ctx.F
    ctx.rule("T8: ResolvedRoundingStrategy::from_mode maps every RoundingMode variant (no catch-all) to the declared direction: +inf->Up, "
             "-inf->Down, ToZero->towards_zero, AwayFromZero->away_from_zero, nearest modes->from_midpoint_ordering with the declared tie strategy")
    n = RS + "::from_mode"
    if ctx.anchor(n):
        b = ctx.body(n)
        gs = b.enum_guards(re.escape(RM) + r"RoundingMode$")
        ctx.ob("from_mode|match", len(gs) == 1 and gs[0][2] is None, f"{len(gs)} exhaustive match(es) on RoundingMode", b.loc())
        for bb, ed, ow, si in gs[:1]:
            full = set(F.enums.get(RM + "RoundingMode", {}).values())
            ctx.ob("from_mode|all-modes-classified", full == set(EXPECT), f"RoundingMode variants without a table entry: {sorted(full - set(EXPECT))}", b.loc(bb))
            for v, s in ed.items():
                region = b.reach((s,), blocked_blocks=[bb])
                other = set().union(*[b.reach((s2,), blocked_blocks=[bb]) for v2, s2 in ed.items() if v2 != v])
                facts_ = arm_facts(b, region - other)
                want, tie = EXPECT.get(v, (None, None))
                ok = want in facts_ and (tie is None or tie in facts_)
                forbidden = {"agg:RoundUp", "agg:RoundDown", "agg:RoundToEven", "call:towards_zero", "call:away_from_zero"} - {want, tie}
                ok = ok and not (facts_ & forbidden)
                ctx.ob(f"from_mode|{v}", ok, f"{v} arm: {sorted(facts_)}; expected {want}" + (f" with tie strategy {tie}" if tie else ""), b.loc(bb))
    for fn, pos, neg in (("towards_zero", "RoundDown", "RoundUp"), ("away_from_zero", "RoundUp", "RoundDown")):
        n = RS + "::" + fn
        if ctx.anchor(n):
            b = ctx.body(n)
            gs = b.bool_guards(lambda a: a.kind == "param" and a.what == 1)
            ok = len(gs) == 1
            for sb, tru, fal, si in gs:
                tv = arm_facts(b, b.reach((tru,)) - b.reach((fal,)))
                fv = arm_facts(b, b.reach((fal,)) - b.reach((tru,)))
                ok = ok and tv == {"agg:" + pos} and fv == {"agg:" + neg}
            ctx.ob(f"{fn}|direction", ok, f"{fn}(is_positive): true -> {pos}, false -> {neg}", b.loc())
    n = RS + "::from_midpoint_ordering"
    if ctx.anchor(n):
        b = ctx.body(n)
        gs = b.enum_guards(r"core::cmp::Ordering$")
        ok = len(gs) == 1 and gs[0][2] is None
        for bb, ed, ow, si in gs[:1]:
            ex = arm_regions(b, bb, ed)
            ok = ok and arm_facts(b, ex.get("Less", set())) == {"agg:RoundDown"} and arm_facts(b, ex.get("Greater", set())) == {"agg:RoundUp"} \
                and not arm_facts(b, ex.get("Equal", set()))
        ctx.ob("from_midpoint_ordering|table", ok, "below midpoint -> RoundDown, above -> RoundUp, at midpoint -> the tie strategy passed in", b.loc())
    ctx.rule("T8: Decimal::checked_round and PreciseDecimal::checked_round resolve the caller's mode through from_mode and match every resolved "
             "strategy (no catch-all): RoundUp adds the complement, RoundDown subtracts the remainder")
    for ty in ("radix_common::math::decimal::Decimal", "radix_common::math::precise_decimal::PreciseDecimal"):
        n = ty + "::checked_round"
        if not ctx.anchor(n):
            continue
        bs = ctx.bodies_of(n)
        b = ctx.body(n)
        short = ty.rsplit("::", 1)[-1]
        fm = b.calls(re.escape(RS) + r"::from_mode$")
        ctx.ob(f"{short}|uses-from_mode", len(fm) == 1 and "param:3" in origin_names(b, fm[0][1]["args"][0]) if fm else False, "the rounding mode parameter is resolved by from_mode", b.loc())
        gs = b.enum_guards(re.escape(RS) + "$")
        ctx.ob(f"{short}|strategy-match", len(gs) >= 1 and all(g[2] is None for g in gs), f"{len(gs)} exhaustive match(es) on ResolvedRoundingStrategy", b.loc())
        for bb, ed, ow, si in gs[:1]:
            ex = arm_regions(b, bb, ed)
            up = {b.term(x)["f"].rsplit("::", 1)[-1] for x in ex.get("RoundUp", set()) if b.term(x)["k"] == "call"}
            dn = {b.term(x)["f"].rsplit("::", 1)[-1] for x in ex.get("RoundDown", set()) if b.term(x)["k"] == "call"}
            ctx.ob(f"{short}|RoundUp-adds", "checked_add" in up, f"RoundUp arm calls {sorted(up)}", b.loc(bb))
            ctx.ob(f"{short}|RoundDown-subtracts", "checked_sub" in dn and "checked_add" not in dn, f"RoundDown arm calls {sorted(dn)}", b.loc(bb))
    ctx.rule("T8 sibling cross-check: Decimal::checked_round and PreciseDecimal::checked_round are the same algorithm over two widths — per "
             "resolved strategy (RoundUp / RoundDown / RoundToEven) the multiset of operations in the arm is identical; a simplification applied to "
             "one of them only (e.g. dropping the sign-dependent neighbour choice of RoundToEven) is reported")
    tabs = {}
    for ty in ("decimal::Decimal", "precise_decimal::PreciseDecimal"):
        n_ = "radix_common::math::" + ty + "::checked_round"
        if not ctx.anchor(n_):
            continue
        b = ctx.body(n_)
        for bb, ed, ow, si in b.enum_guards(r"ResolvedRoundingStrategy$"):
            ex = arm_regions(b, bb, ed)
            tabs[ty] = ({v: sorted(re.sub(r"<.*?>", "", t["f"]).rsplit("::", 1)[-1] for x_, t in b.calls() if x_ in reg and not re.search(r"Try|from_residual", t["f"]))
                         for v, reg in ex.items()}, b.loc(bb))
            break
    ok = len(tabs) == 2 and tabs["decimal::Decimal"][0] == tabs["precise_decimal::PreciseDecimal"][0]
    diff = {}
    if len(tabs) == 2:
        a_, b_ = tabs["decimal::Decimal"][0], tabs["precise_decimal::PreciseDecimal"][0]
        diff = {v: (a_.get(v), b_.get(v)) for v in set(a_) | set(b_) if a_.get(v) != b_.get(v)}
    ctx.ob("checked_round|siblings-agree-per-strategy", ok, "Decimal and PreciseDecimal checked_round perform the same operations in every strategy arm" if ok else
           f"the two checked_round implementations differ: {diff}", tabs.get("decimal::Decimal", (None, ""))[1])
    ctx.assume("every numerical clause (the rounded value itself, divisibility handling in vault withdrawals, overflow) is value-level and NOT decided; "
               "only the finite mode -> direction table is")
