"""Registry of properties: what is claimed (and how), what is not applicable (and why).
bin/gen-manifest turns this into MANIFEST.json."""

NOT_APPLICABLE = {
    "C18": "reachability of stored tree nodes from the current root over all histories is a property of runtime data, not of code shape",
    "C46": "semantic equivalence of two WASM programs (before/after instrumentation)",
}

# property id -> dict(technique, level, text, note, design_ref, configs)
CLAIMED = {}


def claim(pid, technique, text, note="", level="proof"):
    CLAIMED[pid] = dict(technique=technique, text=text, note=note, level=level)


claim("C13", "MIR guard-dominance (must-pass-through) + who-may-write table",
      "Decides the structural clauses of lock exclusivity: the Write state is assigned only from the zero-readers/not-read-only arm; "
      "handles and counters are produced only after try_lock succeeded; open derives read_only from !MUTABLE; "
      "write/set/remove/drop/move sit behind their lock tests; lock state is written only in kernel::substate_locks. "
      "Exact for these clauses on every CFG path; the counting invariant over histories is not decided.")

claim("C51", "MIR guard-dominance under predicate restriction + who-may-construct/call tables",
      "Decides: with MUTABLE set every opener (actor_open_field, key_value_store_open_entry, actor_open_key_value_entry) reaches Ok(handle) only "
      "through a lock-status test whose Locked arm is doomed; write lock-data is built only on the MUTABLE arm and only by the openers; every "
      "SystemService write API matches on a write lock-data variant before kernel_write_substate; kernel substate mutators have no direct caller "
      "outside the audited modules; lock_status is assigned in place only by the two lock() methods (to Locked). Exact for these clauses.")

claim("C50", "MIR guard-dominance with comparison-operand provenance + argument-origin dataflow + who-may-call table",
      "Decides: drop_object reaches kernel_drop_node only past an actor-identity comparison (outer object or blueprint) with the two proof "
      "blueprints as the only exemption constants; globalize creates the global node only after reservation/package/blueprint checks; "
      "new_object takes the package from the current actor; every actor_* state API addresses the node resolved from the actor; the WASM "
      "host surface calls no kernel primitive directly. Kernel visibility over arbitrary reference flows is not decided.")

claim("C02", "MIR ordering + guard-dominance (predicate-restricted) + who-may tables + variant-arm agreement",
      "Decides: in create_commit_receipt the revert (track + royalty) lies on every failure path before any post-execution writer and is never "
      "reachable after one; failed transactions keep only FORCE_WRITE events; revert_writes resets every write-carrying variant with no catch-all; "
      "FORCE_WRITE flags are confined to the audited functions and rejected by the openers except for the XRD vault blueprint; delete_partition / "
      "force_write / Track::finalize / CommitResult have only their audited callers; Reject/Abort arms cannot reach the commit path; Commit is "
      "constructed only when the loan is repaid. The numerical content of the fee writes is not decided.")

claim("C47", "who-may-call table + MIR guard-dominance on comparison guards with operand provenance",
      "Decides: wasmi linear memory is touched only by read_memory/write_memory; in both the access is dominated by NOT(ptr > len) and "
      "NOT(ptr+len > len) computed from the function's own pointer/length parameters against the length of Memory::data; the slice uses the "
      "checked operands; additions are of u32-derived/slice-length operands (64-bit assumption); no raw memory operations in vm::wasm::wasmi.")

claim("C44", "who-may-write tables + MIR guard-dominance on comparison guards",
      "Decides: proposer timestamps are stored only by check_non_decreasing_and_update_timestamps, whose milli store lies behind "
      "NOT(current < previous) (doomed arm otherwise) and whose minute store lies behind new > previous, with the stored values originating from "
      "the parameter; next_round performs no effect before the time check and Round::calculate_progress succeeded; epoch/round have only "
      "next_round/start as writers. '+1 exactly' and minute rounding are not decided.")

claim("C43", "MIR guard-dominance (predicate-restricted) + literal-argument table + pairing (remove -> tombstone lock)",
      "Decides: create_non_fungibles writes an entry only behind the id-type test and (when check_non_existence) behind the not-already-existing "
      "test on the same handle; check_non_existence=false is passed only with RUID ids from generate_ruid; burn_internal tombstone-locks every "
      "removed entry on every success path; update_non_fungible_data writes only after the mutable-field lookup succeeded and overwrites the "
      "looked-up index. Id uniqueness over histories additionally relies on C51.")

claim("C39", "MIR guard-dominance with disjunctive guards + variant-arm agreement",
      "Decides: in all four try_deposit_*_or_refund functions (original + Bottlenose) every deposit/deposit_batch call is reachable only when the "
      "deposit is allowed (is_deposit_allowed / no offending bucket, with the offending filter keeping exactly the not-allowed buckets) or both "
      "badge validations succeeded; the *_or_abort forms only delegate and return Ok only when nothing was refunded; is_deposit_allowed has no "
      "catch-all arm and Allowed/Accept vs Disallowed/Reject arms return the right literal. AllowExisting semantics are not decided.")

claim("C19", "MIR call classification + ordering (no direct DB mutation before the single batch flush), config B (rocksdb feature)",
      "Decides the atomic-batch rule for RocksDBWithMerkleTreeSubstateStore::commit: exactly one flush; every DB mutation issued before it is a "
      "WriteBatch operation on the flushed batch; META_CF and all SUBSTATES_CF mutations are in the batch on every path; direct mutations "
      "after the flush touch only MERKLE_NODES_CF (GC). Found a genuine defect on the pinned tree (substates written directly before the flush), "
      "repaired by a fix: commit. RocksDB's atomicity of write(batch) is trusted.",
      note="Config B: radix-substate-store-impls --features rocksdb type-checked with an empty ROCKSDB_LIB_DIR (no C++ build, nothing linked or run).")

claim("C15", "sibling agreement: per-variant effect classes of the three commit impls (MIR arm regions), config B",
      "Decides: the three CommittableSubstateDatabase::commit implementations match on DatabaseUpdate / PartitionDatabaseUpdates without a "
      "catch-all; Set arms only insert, Delete arms only remove, Reset arms clear before re-inserting, Delta arms never clear; both RocksDB stores "
      "share the key encoder and the range-end constant. Order preservation of the key encoding and listing equality are not decided.",
      note="Config B: radix-substate-store-impls --features rocksdb type-checked with an empty ROCKSDB_LIB_DIR (no C++ build, nothing linked or run).")

claim("C29", "audited panic surface of the date-time parser with dominance-based discharge rules",
      "Decides the parse-never-panics clause for <UtcDateTime as FromStr>::from_str and UtcDateTime::new: every &str range slice is dominated by "
      "is_ascii()==true and a length test covering the slice end, every constant Vec index by len()==N; month-1 and the table index by the "
      "(1..=12) test. Found a genuine defect on the pinned tree (char-count guard, byte slicing), repaired by a fix: commit. Calendar arithmetic is not decided.",
      level="other")

claim("C41", "constant/config agreement: per-function table of RoundingMode constructions",
      "Decides the rounding-direction clause only: payout computations (calculate_amount_owed, the only payout source of redeem / "
      "get_redemption_value) construct only round-down modes; WithdrawStrategy::Rounded built inside pools rounds down; only contribute may "
      "round up. No arithmetic clause is decided.")

claim("C48", "result provenance (MIR return-place definitions + guard dominance) and literal strict flags",
      "Decides: each verify*/verify_and_recover* primitive yields true/Some only from the library verifier's success (is_ok of verify_ecdsa / "
      "verify_strict, Ok arm of recover_ecdsa, BLST_SUCCESS arm of Signature::verify/aggregate_verify), with message/key/signature operands "
      "originating from the function's own parameters; strict flags (verify_strict, sig_groupcheck/pk_validate = true, key validation in "
      "aggregate) and the ciphersuite constant are pinned; every other path yields false/None. The cryptography is trusted.")

claim("C11", "who-may-call table + closure identity of the catch_unwind argument + guard dominance of input validation",
      "Decides the containment clause only: every native package invoke_export is called from the closure handed to std::panic::catch_unwind "
      "in NativeVmInstance::invoke (or from another native invoke_export), that closure is never invoked directly, a caught panic becomes "
      "NativeRuntimeError::Trap, and blueprint dispatch in invoke_upstream happens only after input payload validation. Absence of panics "
      "outside that boundary (system/kernel/track re-panic by design) is not decided.")

claim("C01", "forbidden-callee-in-scope over the whole call database with sanitiser idioms + who-may-read tables + API allow-list",
      "Decides: no function of the execution/library crates uses an order-revealing API of a std/hashbrown hash collection unless its only "
      "consumer is order-insensitive; no clock/random/env/thread/fs call (manifest dumper tooling excepted) and no pointer-to-integer cast "
      "(audited wasmi host pointer excepted); diagnostic flags are read only where modules are selected / receipts built; trace modules call "
      "only uncosted readers; NonIterMap has no iteration API. Input-determinism of IndexMap insertion orders and the WASM cache are not decided.")

claim("C34", "check liveness: config-field -> rejecting-branch dependence (MIR data dependence + doomed arm) and rejection-variant liveness",
      "Decides the liveness clause: every limit of TransactionValidationConfigV1 / MessageValidationConfig is read by a validator function where a "
      "branch depending on it has a doomed arm; every field of the config structs is classified (a new limit needs a rule); every variant of "
      "the header/signature/message/intent/transaction/id validation error enums is produced (dead-today variants frozen with reasons). "
      "Boundary exactness (< vs <=) is not decided.")

claim("C35", "check liveness + doomed-arm + must-pass-through of the four structure-validation steps",
      "Decides: each structural rejection of validate_intent_relationships is constructed on a conditional path that cannot reach Ok; the "
      "enumeration, children, work-list and final-scan steps all lie on every path to Ok; the depth test depends on config.max_subintent_depth "
      "and the reachability test on the depth marked in step 3. That exactly the well-formed trees are accepted is not decided.")

claim("C49", "check liveness (config field -> rejecting branch) + hook wiring under the LIMITS flag (guard dominance)",
      "Decides: every TransactionLimitsConfig field feeds a branch with a rejecting arm in the system modules; all fields are classified; every "
      "TransactionLimitsError variant is produced under a branch; each LimitsModule hook is called from the same-named SystemModuleMixer callback "
      "on the enabled_modules.contains(LIMITS) arm; log/event/panic-message limits reject in the mixer. Boundary exactness is not decided.")

claim("C45", "pipeline must-pass-through + constant struct literal agreement + rejection liveness",
      "Decides: every WasmModule enforce_*/inject_*/ensure_* step and init is applied with `?` on every path to validate's success, each limit "
      "step receiving the validator's own limit field; the WasmFeatures literal enables only mutable_global and sign_extension (floats, threads, "
      "simd, bulk memory, reference types, multi-value, multi-memory, memory64, tail calls, exceptions … are false) and is what ModuleInfo::validate "
      "receives; rejection variants are live (legacy ones frozen with reasons). That each step's predicate is right for every module is not decided.")

claim("C10", "who-may-write owner table keyed by substate payload type + variant-arm constant agreement (lock/unlock idents) + guard dominance",
      "Decides: locked-balance substates are written only by lock_*/unlock_* and liquid ones only by internal_take*/internal_put(+lock_fee), so no "
      "withdraw/burn/recall path touches locked value; proof clone/teardown use the mirrored LOCK/UNLOCK ident per LocalRef variant and on_drop "
      "reaches teardown; lock_amount takes the shortfall from liquid and unlock_amount returns the delta; divisibility is checked before "
      "locking/taking. Max-of-locks arithmetic is not decided.")

claim("C04", "owner table per balance/supply substate + balance-change <-> event pairing (must-pass-through after the mover) + guard dominance",
      "Decides: each balance / supply substate has one audited set of writer functions; every vault function that moves value through "
      "internal_take*/internal_put emits the paired Withdraw/Deposit/Recall event on every path to Ok with a payload originating from the moved "
      "resource (lock/unlock are the only event-less movers); take_by_amount subtracts only behind the insufficient-balance test. The global sum "
      "over histories is not decided.")

claim("C03", "ex-nihilo who-may-construct table + mint/burn must-pass-through pairing with same-amount argument origins",
      "Decides: liquid resource values are fabricated only by the audited functions (types' own take_*, mint/creation, locked->liquid moves, NF "
      "vault takes, fee finalisation); fungible mint/burn and the non-fungible mint/burn paths pass bucket creation, event emission and the "
      "supply update (when TrackTotalSupply) on every path to Ok with the same amount operand; vault-created buckets hold exactly what "
      "internal_take* returned. The conservation equality itself is not decided.")

claim("C09", "who-may-call table + dataflow (dropped content consumed) + guard dominance of emptiness/orphan checks",
      "Decides: bucket nodes are dropped only via drop_*_bucket from put/burn/drop_empty paths, each of which consumes the dropped content; "
      "drop_empty_bucket returns Ok only on the empty arm; the worktop is dropped only after drop_empty succeeded for its buckets; Kernel::invoke "
      "rejects orphaned nodes after auto_drop; auto_drop drops only the two proof blueprints. 'take never yields more than put' is not decided.")

claim("C06", "who-may-write + guard dominance on limit checks and balance tests + dominating sanity assertions + liveness",
      "Decides the limit/gating clauses only: cost units are committed only by consume_*_internal behind check_*_cost_unit_limit (same operand) and "
      "the balance test; the limit checks reject when committed+new exceeds the limit; royalty deduction is behind the balance test; repay_all "
      "returns Ok only when nothing is owed; finalize_fees_for_commit's three sanity assertions dominate its return; every FeeReserveError variant "
      "and CostingParameters field is live. Every arithmetic clause (sums, tip rounding, distribution split) is not decided.")

claim("C07", "variant-arm agreement + doomed-arm checks + reachability on both outcomes + constant agreement with static constant folding",
      "Decides: at boot every non-simulated intent nullification passes the replay check and a failed replay/epoch-range check is rejected; "
      "stored CommittedSuccess/CommittedFailure/Cancelled statuses are all rejecting with no catch-all; the tracker is updated for success and "
      "failure whenever the epoch is readable, writing the status matching is_success; only subintents of failed transactions are skipped; the "
      "tracker ring (epochs per partition x partitions) covers every configured max_epoch_range. Ring arithmetic over long histories is not decided.")

claim("C08", "who-may-call table + guard dominance of the auth hook and of check_permission + verdict-arm analysis",
      "Decides the 'every protected dispatch is checked' clause: all kernel_invoke callers are the four call APIs (each behind "
      "SystemModuleMixer::on_call_*(..)? with the actor carrying the hook's auth zone) or the three blueprint-hook dispatchers; the mixer runs "
      "AuthModule::on_call_* on the AUTH arm; AuthModule returns Ok only after check_permission on the resolved permission; check_permission "
      "returns Ok only for AllowAll or an Authorized verdict (Failed arms doomed, no catch-all); evaluator matches have no catch-all. The iff "
      "semantics of rule evaluation is not decided.")

claim("C05", "validate-before-write must-pass-through (each validation individually necessary) + API classification + kernel rejection liveness",
      "Decides the local obligations behind ledger well-formedness: every SystemService API that passes caller bytes to a kernel write/open "
      "primitive is dominated by each of its payload validations; every SystemService function writing substates is classified (validated or "
      "engine-constructed with a reason); object/KV-store creation is behind validate_new_object / schema validation with the entity type "
      "derived from the blueprint; the kernel's ownership/reference rejections are live and doomed. The global database invariants themselves are not decided.")

claim("C16", "writer/reader layout agreement: named-constant and range-kind agreement, concat order, split constant vs array type",
      "Decides: the hash prefix is written and stripped at the same named constant; the hash comes first and the plain bytes follow unchanged; "
      "each *_to_* mapper uses the prefixer exactly where its *_from_* twin uses the stripper; the sorted key puts the fixed-size prefix first and "
      "the reader splits at the array length of SortedKey.0's type. Injectivity and order preservation as equalities are not decided.")

claim("C20", "table agreement extracted from MIR switches (variant<->byte), constant agreement with static folding, must-pass-through of prefix/end checks",
      "Decides: for ValueKind and both custom value-kind enums the as_u8 and from_u8 tables are mutually inverse and injective, basic ids below "
      "and custom ids at/above CUSTOM_VALUE_KIND_START with the custom range delegated behind an explicit >= test; the encoder's size limit equals "
      "the decoder's 4x7-bit bound and trailing-zero groups are rejected; decode_payload passes the prefix check, decode and check_end; string "
      "decoding uses checked UTF-8; no unchecked access on decode paths. Round-trip equality and uniqueness as value facts are not decided.")

claim("C21", "bounds must-pass-through + allocation-cap dataflow rule + who-may-read table + audited panic surface",
      "Decides: every access to VecDecoder.input in read_byte/peek_byte/read_slice_from_payload is dominated by require_remaining(n)?, which "
      "rejects underflow; every with_capacity/reserve in a Decode impl or the Value decoder is constant, min(len,K<=4096)-shaped or validated by "
      "read_slice(len)?; traversers read input only through decoder primitives; the residual panic-capable constructs of sbor::decoder match an "
      "audited multiset. Depth-accounting agreement between decoder, traverser and encoder is not decided.", level="other")

claim("C33", "argument-origin dataflow on signer-set inserts + guard dominance of verification + who-may-construct (variant source) table",
      "Decides: in the non-preview arms every key inserted into the signer set originates from a successful verify_and_recover on that arm's "
      "signed_hash or is the notary key inserted behind verify(notarized_hash, notary key, notary signature)==true under notary_is_signatory; the "
      "TransactionIntent arm cannot complete without the notary verification; duplicate/invalid arms are doomed; Preview* variants come only from "
      "preview transaction types. Byte-mutation resistance is cryptographic and not decided.")

claim("C28", "guard dominance with comparison provenance + who-may-call + table exhaustiveness + audited parser panic surface",
      "Decides: address decoding returns Ok only when the decoded HRP equals the HRP the network's HrpSet assigns to the decoded entity type, past "
      "bech32 decoding, the Bech32m test, base32 conversion and the entity-byte lookup; the HRP-ignoring form has only the checking wrapper as "
      "caller; encoder and decoder share get_entity_hrp (exhaustive match); every HRP of a network carries its suffix; the NonFungibleLocalId / "
      "address parser's panic-capable constructs are discharged by dominance or audited. Round-trip equalities are not decided.", level="other")

claim("C32", "must-pass-through of canonical-form gates + liveness + closed-world check that every prepare impl obtains its summary from a digest primitive",
      "Decides: both preparation entries return Ok only past decoder construction (size and payload-prefix gates), the prepare call and "
      "check_complete (= check_end on the same decoder); every PrepareError variant and PreparationSettings limit is live (limits followed "
      "interprocedurally into the digest helpers); every prepare_from_* impl derives its Summary from a ConcatenatedDigest / SummarizedRaw "
      "primitive or a delegated prepare with no separate un-hashed decode; raw primitives hash the consumed slice. Collision-freeness is not decided.")

claim("C40", "who-may-call table + guard dominance of the state-machine transition + argument-origin of the applied rule set / returned badge",
      "Decides (v1 and v2): update_role_assignment is called only by the five confirm handlers, each behind transition_mut(..)? and applying "
      "the transition's Ok payload (or the constant locked rule set, returning the transition's bucket); the timed-confirm transition returns Ok "
      "only when compare_against_current_time(stored deadline, Gte) is true and the proposal validates; quick-confirm transitions validate the "
      "proposal; create_proof can reject a locked primary. The state machine over arbitrary interleavings is not decided.")

claim("C36", "variant-arm agreement over instruction effects + rejection liveness + must-pass-through of end-of-manifest checks",
      "Decides: handle_instruction matches every ManifestInstructionEffect with no catch-all, each arm reaching its lifecycle handler; every "
      "effect variant is classified; the consume_* transitions can raise their not-created / already-used / locked-by-proof rejections and mark "
      "the item consumed; invocations consume passed buckets/proofs/reservations; every ManifestValidationError variant is produced; end-of-"
      "manifest handling precedes every successful completion and raises the dangling-item errors. Agreement with run-time behaviour is not decided.")

claim("C31", "audited panic surface (multiset per function) over the manifest compiler modules + pinned repaired invariant of the snippet builder",
      "Decides the never-panics clause for manifest::{lexer,parser,token,compiler,diagnostic_snippets,generator,blob_provider}: every panic-capable "
      "MIR construct is discharged by dominance or matches an audited entry with its reason; compile_manifest propagates every stage's error; the "
      "snippet builder keeps line terminators (a genuine CRLF panic was found on the pinned tree and repaired by a fix: commit). Parsers living in "
      "radix-common and external crates are outside the table; determinism rides on C01.", level="other")

claim("C30", "table agreement from evaluated string constants and MIR string-match tables (parser) against decompiler and generator",
      "Decides: instruction IDENT strings and ID discriminators are pairwise distinct; InstructionIdent::from_ident maps every pattern to exactly one "
      "variant, knows every instruction's IDENT, maps it to the variant named after the instruction and produces every variant; every upper-case "
      "command string the decompiler can emit (including aliases) is a parser pattern; the generator handles every variant; each decompile() "
      "names its own IDENT. Value formatting/parsing round-trips and alias argument re-mapping are not decided.")

claim("C12", "guard dominance (database read only on the untracked arm) + who-may-read table + variant exhaustiveness",
      "Decides the precedence clause only: in Track point reads the database is consulted only when the entry is untracked and not transient "
      "(an Occupied entry never reaches the database) and the fetched result is recorded; the database handle is read only by the audited Track "
      "functions and never committed to; scans/drains consult is_new and skip shadowed database entries; tracked-value accessors have no "
      "catch-all. Observational equivalence (merge order, limit counting, exact diffs) is not decided.")

claim("C14", "variant-arm agreement on the overlay's read/list paths (root consulted only where the overlay is silent)",
      "Decides the precedence clause only: the overlay's point read reaches the root database only on OverlayLookupResult::NotFound and a Reset "
      "partition never yields NotFound; the listing of a Reset partition never touches the root while a Delta partition merges root and overlay "
      "through OverlayingIterator; commit into the overlay matches every update variant. Equality of listings/cursors with 'base + commits' is "
      "not decided.")

claim("C37", "variant-arm agreement (every constraint kind has a rejecting path) + rejection liveness + must-pass-through in the general constraint",
      "Decides the enforcement-liveness clause only: validate_fungible / validate_non_fungible match every ManifestResourceConstraint kind with "
      "no catch-all and every kind's arm contains a rejecting path; every ResourceConstraint(s)Error variant is produced; the general constraint "
      "returns Ok only past the lower-bound, upper-bound and allow-list validations and checks required ids. The iff itself (each comparison "
      "being the right one, normalisation, declared-valid implies satisfiable) is value-level and not decided.")

claim("C25", "finite table agreement: RoundingMode -> resolved direction, extracted from MIR match arms",
      "Decides the mode -> direction table only: from_mode maps every RoundingMode variant (no catch-all) to the declared direction / tie strategy; "
      "towards_zero / away_from_zero / from_midpoint_ordering have the declared sign and midpoint tables; Decimal and PreciseDecimal checked_round "
      "resolve the caller's mode through from_mode and match every resolved strategy, adding on RoundUp and subtracting on RoundDown. The rounded "
      "value itself, overflow reporting and divisibility handling are numerical and not decided.")

claim("C24", "audited panic surface restricted to the named checked operations and conversions (incl. big-integer operator arithmetic)",
      "Decides the 'none of these operations panics' clause only: the ~200 Checked{Add,Sub,Mul,Div,Neg}/checked_abs bodies of Decimal and PreciseDecimal "
      "contain no panic-capable construct (abs() is discharged by the `!= MIN` guard); every panic-capable construct in the conversions is in an "
      "audited table with its range argument. Exactness, truncation toward zero and 'fails exactly when unrepresentable' are numerical and not decided.",
      level="other")

claim("C26", "audited panic surface of the power/root functions + dominance of the zero-degree / negative-radicand guards",
      "Decides the 'fail rather than panic' clause only: every panic-capable construct of checked_powi / checked_sqrt / checked_cbrt / "
      "checked_nth_root (both decimal types), including big-integer operator arithmetic, matches an audited entry with its range argument; the "
      "`n - 1` subtraction and nth_root(n) are unreachable from the n == 0 arm and an is_negative() test exists. Exact truncation of the results "
      "is numerical and not decided.", level="other")

claim("C27", "guard dominance: the sign-accepting integer parser reaches the fractional component only behind a digits-only test; rejection liveness",
      "Decides the acceptance-set clause that is visible in the code's shape: in both decimal parsers the fractional component is parsed by the "
      "sign-accepting big-integer parser only behind an ASCII-digits-only test (a genuine defect - \"1.-5\" parsed as 0.95 - was found on the pinned "
      "tree and repaired by a fix: commit); the parse rejections are live and the scale derives from the fractional length. Print/parse round-trip "
      "equality and exactness of the parsed value are value-level and not decided.")

claim("C17", "variant-arm agreement and argument origins in the three state-tree tiers (what is hashed into which leaf)",
      "Decides the tier-update shape clause only: the substate tier matches PartitionDatabaseUpdates with no catch-all, Set builds Some(new_leaf(value)) "
      "and Delete None, a Reset records the old subtree stale and empties the tier root before the new leaves are generated, new_leaf hashes exactly "
      "the value it is given; a partition's leaf is the root hash returned by its substate tier and an entity's leaf the root returned by its "
      "partition tier, unchanged. Equality with an independent sparse-Merkle commitment, batching independence and the jellyfish algorithm are not decided.")

claim("C23", "exhaustive kind match + dominance of the accepting exit by a same-kind test; verdict-table agreement for validation changes",
      "Decides the rejecting-path clause only: compare_type_kind_internal matches all 18 base kinds with no catch-all, its accepting exit is "
      "reachable only after the compared kind was tested equal to / destructured as the base kind, every arm can reach with_mismatch_error; "
      "the validation verdict table is Unchanged->valid, Strengthened->invalid, Incomparable->invalid, Weakened->allow_validation_weakening and "
      "an invalid change records an error; every SchemaComparisonErrorDetail variant is produced. That a reported equality/extension implies "
      "the payload-set relation (soundness proper) is semantic and not decided.", level="other")

claim("C42", "guard dominance on the stake-index key, who-may-write table for the index, iterator-chain origin of the active set, ordering of ratio read vs pool change",
      "Decides the membership/size/order clause and the ratio-ordering clause only: an index key exists only for registered validators with non-zero "
      "stake; index entries are written only through index_update, which every stake mover and register_update calls with the new state; the next "
      "active set is the stake-descending sort of the index scan truncated by take(config.max_validators); minted units are exactly "
      "calculate_stake_unit_amount(...) computed before the XRD enters the vault and redeemed XRD exactly calculate_redemption_value(...) computed "
      "before the units are burnt. Proportionality, 'never gains XRD', emission and reward bounds are arithmetic over histories and not decided.",
      level="other")

claim("C38", "table agreement between the analyser's 'returns nothing' classification and the invocation's Output type alias; conservative default on the unresolved arm",
      "Decides the conservative-default clauses only: every native invocation the analyser declares to return no resources has an <X>Output type that "
      "cannot carry a bucket (122 rows on the pinned tree, type aliases read from the type-checked crates); an unresolved invocation yields the "
      "unknown-resources value, and the worktop receives exactly the invocation's output; resolve_native_invocation is exhaustive. That the declared "
      "bounds of the 50 non-trivial invocations are right and that executions stay within reported bounds is semantic and not decided.",
      level="other")

claim("C22", "table agreement between sibling trait impls: value kind vs type kind, Encode/Decode/Describe arity and discriminator tables",
      "Decides the table-agreement clause between the sibling impls of every SBOR type of the analysed crates (about 1400 types, derive-generated and "
      "manual alike, read from the type-checked MIR so the derive macros' actual output is what is compared): the value kind written by "
      "Categorize equals the type kind declared by Describe::type_data; for tuple-shaped types the arity written by Encode, required by Decode "
      "and listed by Describe agree; for enum-shaped types the (discriminator -> arity) tables of Encode, Decode and Describe agree and the "
      "decoder's catch-all discriminator arm rejects; transparent wrappers delegate to the same inner type on every side. Child type ids, "
      "validations, custom-value payloads and hand-written codecs of another shape are not compared (counted as undecided in the evidence); "
      "payload-level agreement for every value is not decided.", level="other")

# clauses added after the mutation campaign (DESIGN.md section 9.2); appended to the claim texts
ADDENDA = {
    "C03": "Also decided: every manager entry point that (transitively) drops a bucket stores the new total supply on every path to Ok, locally or through a manager method.",
    "C04": "Also decided (shared with C10): every take/lock of a caller-chosen amount is behind check_fungible_amount == true.",
    "C05": "Also decided: in OpenedSubstate::diff / SubstateDiff::from_new_substate every listed own passes the duplicate test.",
    "C06": "Also decided: cost units of a category are deducted at the tip-inclusive effective price of that category and no other price; the effective prices derive from the base price and the tip multiplier.",
    "C07": "Also decided: the tracker's rotation and lookup agree on a ring of end-start+1 slots (every end-start is followed by +1; advance wraps exactly at the range end or steps by one).",
    "C08": "Also decided: require_amount is granted only behind a comparison one operand of which is a single proof's amount().",
    "C09": "Also decided (shared with C10): lock takes exactly the shortfall, unlock returns exactly the released delta.",
    "C10": "Also decided: every lock registration passes the comparison with the locked maximum and the shortfall is taken first.",
    "C11": "Also decided: the auth-zone proof composition siblings test a proof's blueprint before reading it as a typed proof (a genuine defect was found and fixed); audited panic surface of the caller-chosen-Instant comparison path.",
    "C20": "Also decided: after every read_byte of read_size, Ok(size) is reachable only through `byte != 0` or `first group`.",
    "C21": "Also decided: in the untyped traverser every child read after a descent is behind the max-depth test.",
    "C30": "Also decided: the NonFungibleGlobalId display alias is emitted only for tuples of tested length 2.",
    "C32": "Also decided: no prepare impl builds a set/map by a de-duplicating collect; every decoded child hash passes an insert test whose duplicate arm is doomed.",
    "C33": "Also decided (shared with C48): the Ed25519 primitive answers true only from verify_strict.",
    "C35": "Also decided: the yield-count comparison runs only after all yield summaries have been collected.",
    "C36": "Also decided: every occurrence of a bucket/proof/reservation in an invocation's arguments is consumed (no collapsing collection between the walk and consume_*).",
    "C40": "Also decided: proofs of the controlled asset are created only behind the primary-role Unlocked arm.",
    "C41": "Also decided: inside contribute a value is rounded up only where no pool units are in circulation.",
    "C15": "Also decided: the in-memory store re-examines every partition entry it creates for emptiness (no phantom partitions).",
    "C24": "Also decided: the checked division truncates (no euclidean/floor/ceil division in CheckedDiv bodies).",
    "C26": "Also decided: in checked_powi the overflow-panicking wide-integer operators are applied to constants only.",
    "C27": "Also decided: the sign of a numeral with an all-zero integral part is taken from a prefix test on the text.",
    "C17": "Also decided: the jellyfish collapse condition tests old and new children symmetrically (both at most one).",
    "C23": "Also decided: NumericValidation::compare orders the effective bounds, never the raw Option bounds.",
    "C25": "Also decided: Decimal and PreciseDecimal checked_round perform the same operations per strategy arm.",
    "C29": "Also decided: is_leap_year uses the Gregorian constants 4/100/400 (or the equivalent bit form).",
    "C31": "Also decided: the skipped-characters amount of create_snippet is accumulated in chars, not bytes.",
    "C14": "Also decided: merging a commit never shrinks a staged Delta map (a Delete stays recorded as a tombstone).",
    "C16": "Also decided: audited panic surface of the key mapper (a key the writer emits always maps back).",
    "C37": "Also decided: a general constraint is declared valid only after lower/upper, required/upper and lower/allow-list-size have been compared and required ids tested to be a subset of the allow-list.",
    "C12": "Also decided: scan_keys tests its limit against the collected keys, never ahead of the presence filter.",
    "C22": "Also decided: every validator matching ReferenceValidation maps each variant to the same audited NodeId predicate.",
    "C38": "Also decided: a resource that becomes individually tracked for an account inherits the account's earlier unknown deposits.",
    "C42": "Also decided: stake units are minted 1:1 only when the stake vault is empty.",
    "C48": "Also decided: no key/signature decode error in signature_validator is discarded (an undecodable component fails the verification).",
    "C45": "Also decided: the memory-export predicate tests the export kind and the name.",
    "C47": "Also decided: the ptr+len bounds sum is formed in a 64-bit type.",
    "C49": "Also decided: add_event_unchecked is called only by the checked wrapper and lock_fee, whose slot is reserved on every path of start_lock_fee.",
}
for _pid, _extra in ADDENDA.items():
    if _pid in CLAIMED and _extra not in CLAIMED[_pid]["text"]:
        CLAIMED[_pid]["text"] += " " + _extra
