"""Registry of properties: what is claimed (and how), what is not applicable (and why).
bin/gen-manifest turns this into MANIFEST.json."""

NOT_APPLICABLE = {
    "C12": "observational equivalence of the state cache with 'database overlaid with writes' (merge order, limit counting) is a relation between runtime values; no path-shaped necessary condition distinguishes a correct merge from an off-by-one",
    "C14": "equality of reads/listings of two data structures after arbitrary commit sequences is value-level merge logic; nothing structural to decide",
    "C17": "equality of a computed Merkle root with an independent commitment is value-level; a self-consistent change of hashing leaves every structural rule intact",
    "C18": "reachability of stored tree nodes from the current root over all histories is a property of runtime data, not of code shape",
    "C23": "soundness relates the comparison verdict to validity of all payloads under two schemas; semantic, no structural necessary condition",
    "C24": "numerical exactness over 192/256-bit values; panic-freedom needs value-range arguments (widening products) that no sound static rule in reach discharges",
    "C25": "rounding results are numerical; value-level",
    "C26": "truncation of roots/powers is numerical; value-level",
    "C27": "parse/print inverse is a round-trip equality over all strings/values; value-level",
    "C37": "an iff between a constraint's mathematical meaning and a predicate over amounts/id sets is value-level",
    "C38": "soundness of analyser output against all executions on all ledger states is semantic",
    "C42": "proportionality and per-epoch emission bounds are arithmetic over histories; the stake-sorted index is value-level",
    "C46": "semantic equivalence of two WASM programs (before/after instrumentation)",
}

# property id -> dict(technique, level, text, note, design_ref, configs)
CLAIMED = {}


def claim(pid, technique, text, note="", level="proof"):
    CLAIMED[pid] = dict(technique=technique, text=text, note=note, level=level)


claim("C13", "MIR guard-dominance (must-pass-through) + who-may-write table",
      "Decides the structural clauses of lock exclusivity: the Write state is assigned only from the zero-readers/not-read-only arm; "
      "handles and counters are produced only after try_lock succeeded; open derives read_only from !MUTABLE; "
      "write/set/remove/drop/move sit behind their lock tests; lock state is written only in kernel::substate_locks. "
      "Exact for these clauses on every CFG path; the counting invariant over histories is not decided.")

claim("C51", "MIR guard-dominance under predicate restriction + who-may-construct/call tables",
      "Decides: with MUTABLE set every opener (actor_open_field, key_value_store_open_entry, actor_open_key_value_entry) reaches Ok(handle) only "
      "through a lock-status test whose Locked arm is doomed; write lock-data is built only on the MUTABLE arm and only by the openers; every "
      "SystemService write API matches on a write lock-data variant before kernel_write_substate; kernel substate mutators have no direct caller "
      "outside the audited modules; lock_status is assigned in place only by the two lock() methods (to Locked). Exact for these clauses.")

claim("C50", "MIR guard-dominance with comparison-operand provenance + argument-origin dataflow + who-may-call table",
      "Decides: drop_object reaches kernel_drop_node only past an actor-identity comparison (outer object or blueprint) with the two proof "
      "blueprints as the only exemption constants; globalize creates the global node only after reservation/package/blueprint checks; "
      "new_object takes the package from the current actor; every actor_* state API addresses the node resolved from the actor; the WASM "
      "host surface calls no kernel primitive directly. Kernel visibility over arbitrary reference flows is not decided.")

claim("C02", "MIR ordering + guard-dominance (predicate-restricted) + who-may tables + variant-arm agreement",
      "Decides: in create_commit_receipt the revert (track + royalty) lies on every failure path before any post-execution writer and is never "
      "reachable after one; failed transactions keep only FORCE_WRITE events; revert_writes resets every write-carrying variant with no catch-all; "
      "FORCE_WRITE flags are confined to the audited functions and rejected by the openers except for the XRD vault blueprint; delete_partition / "
      "force_write / Track::finalize / CommitResult have only their audited callers; Reject/Abort arms cannot reach the commit path; Commit is "
      "constructed only when the loan is repaid. The numerical content of the fee writes is not decided.")

claim("C47", "who-may-call table + MIR guard-dominance on comparison guards with operand provenance",
      "Decides: wasmi linear memory is touched only by read_memory/write_memory; in both the access is dominated by NOT(ptr > len) and "
      "NOT(ptr+len > len) computed from the function's own pointer/length parameters against the length of Memory::data; the slice uses the "
      "checked operands; additions are of u32-derived/slice-length operands (64-bit assumption); no raw memory operations in vm::wasm::wasmi.")

claim("C44", "who-may-write tables + MIR guard-dominance on comparison guards",
      "Decides: proposer timestamps are stored only by check_non_decreasing_and_update_timestamps, whose milli store lies behind "
      "NOT(current < previous) (doomed arm otherwise) and whose minute store lies behind new > previous, with the stored values originating from "
      "the parameter; next_round performs no effect before the time check and Round::calculate_progress succeeded; epoch/round have only "
      "next_round/start as writers. '+1 exactly' and minute rounding are not decided.")

claim("C43", "MIR guard-dominance (predicate-restricted) + literal-argument table + pairing (remove -> tombstone lock)",
      "Decides: create_non_fungibles writes an entry only behind the id-type test and (when check_non_existence) behind the not-already-existing "
      "test on the same handle; check_non_existence=false is passed only with RUID ids from generate_ruid; burn_internal tombstone-locks every "
      "removed entry on every success path; update_non_fungible_data writes only after the mutable-field lookup succeeded and overwrites the "
      "looked-up index. Id uniqueness over histories additionally relies on C51.")
