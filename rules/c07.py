"""C07 An intent can be committed at most once before it expires — replay check at boot, tracker write on success and failure, ring coverage."""
import re
from lib import *
from c15 import arm_regions

SC = "radix_engine::system::system_callback::System"
INIT = "<radix_engine::system::system_callback::System as radix_engine::kernel::kernel_callback_api::KernelTransactionExecutor>::init"
IHN = r"radix_transactions::model::.*IntentHashNullification$|::IntentHashNullification$"
TT = "radix_engine::blueprints::transaction_tracker::package::"
TT_SUB = TT + "TransactionTrackerSubstateV1"


def run(ctx):
    F = ctx.F
    ctx.rule("T5 in System::init: the match over IntentHashNullification has no catch-all; the TransactionIntent and Subintent arms call "
             "validate_intent_hash_uncosted, only the Simulated* arms do not; a failed replay / epoch-range check cannot reach Ok (rejection receipt)")
    bodies = ctx.bodies_of(INIT)
    b = next((x for x in bodies if x.calls(re.escape(SC) + r"::validate_intent_hash_uncosted$")), None)
    if b is None:
        ctx.ob("anchor|init", False, "System::init calling validate_intent_hash_uncosted not found")
    else:
        gs = [g for g in b.enum_guards(IHN) if any(bb in b.reach((s,), blocked_blocks=[g[0]]) for s in g[1].values() for bb, _ in b.calls(r"::validate_intent_hash_uncosted$"))]
        ctx.ob("init|nullification-match", len(gs) >= 1, f"{len(gs)} match(es) on IntentHashNullification that reach the replay check", b.loc())
        for bb, ed, ow, si in gs[:1]:
            ctx.ob("init|no-catch-all", ow is None and set(ed) == {"TransactionIntent", "SimulatedTransactionIntent", "Subintent", "SimulatedSubintent"},
                   f"arms {sorted(ed)}, otherwise={ow}", b.loc(bb))
            ex = arm_regions(b, bb, ed)
            vcalls = {x for x, _ in b.calls(re.escape(SC) + r"::validate_intent_hash_uncosted$")}
            for v in ("TransactionIntent", "Subintent"):
                ctx.ob(f"init|{v}-checked", bool(ex.get(v, set()) & vcalls), f"{v} arm calls validate_intent_hash_uncosted", b.loc(bb))
            for v in ("SimulatedTransactionIntent", "SimulatedSubintent"):
                ctx.ob(f"init|{v}-unchecked-by-design", not (ex.get(v, set()) & vcalls), f"{v} arm (preview) performs no replay check", b.loc(bb))
        # failing results are doomed
        oks = set(b.ok_exits())
        for what, pat in (("replay-check", r"core::result::Result(<.*>)?::and_then$"), ("epoch-range", re.escape(SC) + r"::validate_epoch_range$")):
            tg = [g for g in b.enum_guards(r"core::result::Result$", lambda a: a.kind == "call" and re.search(pat, a.what))]
            ok = bool(tg) and all(not (b.reach((ed.get("Err", ow),)) & oks) for _, ed, ow, _ in tg if ed.get("Err", ow) is not None)
            ctx.ob(f"init|failed-{what}-is-rejected", ok, f"Err arm of the {what} result cannot reach Ok ({len(tg)} match site(s))", b.loc(tg[0][0]) if tg else b.loc())
        rej = b.calls(re.escape(SC) + r"::create_rejection_receipt$")
        ctx.floor("init|rejection-receipt-sites", len(rej), 3)

    ctx.rule("T5 in validate_intent_hash_uncosted: CommittedSuccess|CommittedFailure and Cancelled arms are doomed, no catch-all")
    n = SC + "::validate_intent_hash_uncosted"
    if ctx.anchor(n):
        b = ctx.body(n)
        gs = b.enum_guards(r"TransactionStatusV1$")
        ctx.ob("validate_intent_hash|match", len(gs) == 1, f"{len(gs)} match(es) on TransactionStatusV1", b.loc())
        for bb, ed, ow, si in gs:
            ctx.ob("validate_intent_hash|no-catch-all", ow is None, f"arms {sorted(ed)}", b.loc(bb))
            for v, s in ed.items():
                ctx.ob(f"validate_intent_hash|{v}-rejected", doomed(b, s), f"a stored status {v} cannot reach Ok", b.loc(bb))
        ctx.ob("validate_intent_hash|reads-tracker-partition", bool(b.calls(r"::partition_for_expiry_epoch$")) and len(b.calls(r"::read_substate$")) >= 2,
               "reads the tracker field and the partition entry for the intent hash", b.loc())

    ctx.rule("T2 in create_commit_receipt: update_transaction_tracker is reached for success AND failure (not control-dependent on is_ok) "
             "whenever the epoch is readable; inside it the status written is CommittedSuccess on the is_success arm and CommittedFailure otherwise; "
             "Nullification::of_intent skips only subintents of failed transactions")
    n = SC + "::create_commit_receipt"
    if ctx.anchor(n):
        b = ctx.body(n)
        upd = call_blocks(b, re.escape(SC) + r"::update_transaction_tracker$")
        gi = b.call_bool_guards(r"core::result::Result::is_ok$")
        ok = bool(upd) and bool(gi)
        for bb, tru, fal, si in gi:
            for edge in ((bb, tru), (bb, fal)):
                ok = ok and bool(set(upd) & b.reach((0,), blocked_edges=[edge]))
        ctx.ob("commit-receipt|tracker-updated-on-both-outcomes", ok, "update_transaction_tracker is reachable with either is_ok edge removed", b.loc(upd[0]) if upd else b.loc())
        check_guarded(ctx, "commit-receipt|tracker-needs-epoch", b, upd, [G_try(re.escape(SC) + r"::read_epoch_uncosted$")], "update_transaction_tracker")
    n = SC + "::update_transaction_tracker"
    if ctx.anchor(n):
        b = ctx.body(n)
        sets = call_blocks(b, r"::set_substate$")
        ctx.floor("update_transaction_tracker|set_substate", len(sets), 1)
        s_ok = agg_blocks(b, r"TransactionStatusV1$", "CommittedSuccess")
        s_fail = agg_blocks(b, r"TransactionStatusV1$", "CommittedFailure")

        def succ_param(val):
            def fn(body):
                e, bl = [], []
                for bb, tru, fal, si in body.bool_guards(lambda a: a.kind == "param" and a.what == 4):
                    e.append((bb, tru if val else fal)); bl.append(bb)
                return e, bl
            return fn
        check_guarded(ctx, "update_transaction_tracker|success-status", b, s_ok, [G_custom(succ_param(True), "is_success")], "CommittedSuccess status")
        check_guarded(ctx, "update_transaction_tracker|failure-status", b, s_fail, [G_custom(succ_param(False), "!is_success")], "CommittedFailure status")
        check_arg_origin(ctx, "update_transaction_tracker|of_intent-success-arg", b, r"Nullification::of_intent$", 2, r"^param:4$", "is_success passed to Nullification::of_intent")
    n = "radix_engine::transaction::transaction_receipt::Nullification::of_intent"
    if ctx.anchor(n):
        b = ctx.body(n)
        nones = [bb for bb, k in b.ret_assignments() if k == "None"]
        gs = b.enum_guards(IHN)
        ok = bool(gs) and bool(nones)
        for bb, ed, ow, si in gs:
            ok = ok and ow is None
            ex = arm_regions(b, bb, ed)
            for v in ("TransactionIntent", "SimulatedTransactionIntent"):
                ok = ok and not (ex.get(v, set()) & set(nones)) and not (b.reach((ed[v],), blocked_blocks=[bb]) & set(nones))
        ctx.ob("of_intent|transaction-intents-always-nullified", ok, "the TransactionIntent arms can never return None (only subintents of failed transactions are skipped)", b.loc())

    ctx.rule("T9 ring coverage: EPOCHS_PER_PARTITION x (PARTITION_RANGE_END - PARTITION_RANGE_START) >= every max_epoch_range literal of the "
             "TransactionValidationConfig constructors")
    c = F.consts
    try:
        ring = c[TT + "EPOCHS_PER_PARTITION"] * (c[TT + "PARTITION_RANGE_END"] - c[TT + "PARTITION_RANGE_START"])
    except KeyError as e:
        ring = None
        ctx.ob("ring|constants", False, f"tracker constant not found: {e}")
    lits = []
    CFG = "radix_transactions::validation::transaction_validation_configuration::TransactionValidationConfigV1"
    for f in F.fns.values():
        if CFG in f.structs and not f.timpl:
            bb_ = ctx.body(f.name)
            for i in range(bb_.n):
                for s in bb_.stmts(i):
                    if s["k"] == "=" and s["rv"]["k"] == "agg" and s["rv"].get("adt") == CFG:
                        o = s["rv"]["ops"][s["rv"]["fields"].index("max_epoch_range")]
                        v = bb_.const_value(o)
                        if v is not None:
                            lits.append((f.name.split("::")[-1], v))
                        elif not any("max_epoch_range" in "".join(a.proj) for a in bb_.origins(o, deep=True)):
                            lits.append((f.name.split("::")[-1], None))
    ctx.floor("ring|max_epoch_range-literals", len([l for l in lits if l[1] is not None]), 1)
    if ring is not None:
        for nm, v in lits:
            ctx.ob(f"ring|covers|{nm}", v is not None and v <= ring, f"max_epoch_range {v} in {nm}() vs ring coverage {ring} epochs")
    ctx.rule("T8 sibling agreement on the ring size: wherever the tracker code subtracts the inclusive partition-range bounds "
             "(partition_range_end_inclusive - partition_range_start_inclusive) the result is turned into the number of partitions by `+ 1` before "
             "it is used (as a modulus, a multiplier or a wrap-around distance); advance() wraps to partition_range_start_inclusive exactly on "
             "start_partition == partition_range_end_inclusive or steps by + 1 — the lookup and the rotation must agree on the ring having "
             "end - start + 1 slots")
    subs, bad = 0, []
    for name, f in sorted(F.fns.items()):
        if not f.mod.startswith("radix_engine::blueprints::transaction_tracker"):
            continue
        if not any(x.endswith(".partition_range_end_inclusive") for x in f.fr):
            continue
        b = ctx.body(name)
        adds1 = []
        for i in range(b.n):
            for st in b.stmts(i):
                if st["k"] == "=" and st["rv"]["k"] == "bin" and st["rv"]["op"].startswith("Add") and b.const_value(st["rv"]["b"]) == 1:
                    adds1.append((i, st))
        for i in range(b.n):
            for st in b.stmts(i):
                if st["k"] != "=" or st["rv"]["k"] != "bin" or not st["rv"]["op"].startswith("Sub"):
                    continue
                oa, ob = b.origins(st["rv"]["a"]), (b.origins(st["rv"]["b"]) if st["rv"]["b"][0] != "k" else [])
                if oa and ob and all(x.proj[-1:] == (".partition_range_end_inclusive",) for x in oa) and all(x.proj[-1:] == (".partition_range_start_inclusive",) for x in ob):
                    subs += 1
                    dst = st["p"][0]
                    plus1 = any(any(a.kind == "bin" and a.what.startswith("Sub") and a.bb == i for a in b.origins(ad["rv"]["a"])) for _, ad in adds1)
                    # every *other* consumer must go through the +1 value: the raw difference is read only by that Add
                    raw_uses = 0
                    for j in range(b.n):
                        for s2 in b.stmts(j):
                            if s2["k"] == "=" and s2["rv"]["k"] == "bin" and s2 is not st:
                                for side in ("a", "b"):
                                    o = s2["rv"][side]
                                    if o[0] != "k" and any(a.kind == "bin" and a.what.startswith("Sub") and a.bb == i for a in b.origins(o)):
                                        if not (s2["rv"]["op"].startswith("Add") and b.const_value(s2["rv"]["b"]) == 1):
                                            raw_uses += 1
                    if not plus1 or raw_uses:
                        bad.append((name.rsplit("::", 1)[-1], b.loc(i), plus1, raw_uses))
    ctx.floor("ring-size|inclusive-range-subtractions", subs, 1)
    ctx.ob("ring-size|end-minus-start-is-followed-by-plus-one", not bad,
           f"{subs} subtraction(s) of the inclusive range bounds, all turned into a slot count by + 1" if not bad else
           f"range-bound difference used without + 1 (ring of end - start slots instead of end - start + 1): {bad}", bad[0][1] if bad else "")
    n = TT_SUB + "::advance"
    if ctx.anchor(n):
        b = ctx.body(n)
        writes = [(i, st) for i in range(b.n) for st in b.stmts(i) if st["k"] == "=" and st["p"][-1:] == [".start_partition"]]
        ok = bool(writes)
        forms = []
        for i, st in writes:
            if st["rv"]["k"] == "use" and any(a.kind == "bin" and a.what.startswith("Rem") for a in b.origins(st["rv"]["o"], deep=True)):
                forms.append("modular")
                continue
            ats = b.origins(st["rv"]["o"]) if st["rv"]["k"] == "use" else []
            for a in ats:
                if a.kind == "param" and a.proj[-1:] == (".partition_range_start_inclusive",):
                    forms.append("wrap-to-range-start")
                elif a.kind == "bin" and a.what.startswith("Add"):
                    forms.append("step+1" if b.const_value(a.extra["b"]) == 1 else "step+?")
                elif a.kind == "param" and a.proj[-1:] == (".start_partition",):
                    pass
                elif a.kind == "bin" and a.what.startswith("Rem"):
                    forms.append("modular")
                else:
                    forms.append(f"other:{a}")
        eqg = [sb for sb in b.switches() if any(a.kind == "bin" and a.what == "Eq" and
                                                any(x.proj[-1:] == (".partition_range_end_inclusive",) for x in b.origins(a.extra["b"]) + b.origins(a.extra["a"]))
                                                for a in b.switch_info(sb)["atoms"])]
        if "modular" in forms:
            good = True      # the modulus is covered by the +1 rule above
        else:
            good = set(forms) == {"wrap-to-range-start", "step+1"} and len(eqg) == 1
        ctx.ob("advance|wraps-at-range-end-else-steps-by-one", ok and good, f"start_partition update forms: {sorted(set(forms))}; wrap test(s) on range end: bb{eqg}", b.loc())
    ctx.assume("the ring arithmetic of partition_for_expiry_epoch/advance over long epoch histories is value-level and not decided beyond the slot-count agreement above")
