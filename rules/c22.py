"""C22 Typed SBOR codecs agree with their generated schemas — the table-agreement clause: for every SBOR type of the analysed crates the value kind
written by the typed codec, the tuple arity / (discriminator -> arity) table written by Encode, the one accepted by Decode and the one declared by
Describe::type_data are the same.  Payload-level agreement for every value (child types, validations) is not decided."""
import re
from collections import deque, defaultdict
from lib import *

PAT = re.compile(r"^<(.*) as sbor::(categorize::Categorize|encode::Encode|decode::Decode|schema::describe::Describe)(?:<(.*)>)?>::"
                 r"(value_kind|encode_body|decode_body_with_value_kind|type_data)$")
SCOPE = ("radix_engine::", "radix_engine_interface::", "radix_common::", "radix_transactions::", "radix_substate_store", "sbor::", "radix_native_sdk::")


CRATES = ("sbor", "radix_common", "radix_engine", "radix_engine_interface", "radix_transactions", "radix_substate_store_impls",
          "radix_substate_store_interface", "radix_native_sdk", "radix_rust")


def fam(p):
    if p is None:
        return "G"
    if "ScryptoCustom" in p:
        return "S"
    if "ManifestCustom" in p:
        return "M"
    if "NoCustom" in p:
        return "N"
    return "G"


def const_arg(b, t, i):
    a = t["args"][i]
    v = b.const_value(a)
    return v


def bfs_calls(b, start, pattern, stop_blocks=()):
    """calls matching pattern in BFS order from start (inclusive)"""
    r = re.compile(pattern)
    seen, dq, out = {start}, deque([start]), []
    while dq:
        x = dq.popleft()
        t = b.term(x)
        if t["k"] == "call" and r.search(t["f"]):
            out.append((x, t))
            continue            # do not look past the first match on this path
        for s in b.succs(x):
            if s not in seen and s not in stop_blocks and not b.blocks[s].get("cu"):
                seen.add(s)
                dq.append(s)
    return out


def first_ga(t):
    """first generic argument of a resolved call (the Self type of a delegated trait call)"""
    ga = t.get("ga") or ""
    if not ga.startswith("["):
        return None
    depth, out = 0, ""
    for ch in ga[1:]:
        if ch in "[(<":
            depth += 1
        elif ch in "])>":
            if depth == 0:
                break
            depth -= 1
        elif ch == "," and depth == 0:
            break
        out += ch
    return out.strip() or None


def norm_ty(x):
    """identify Rust types whose SBOR encodings are the same by construction: references, Box, Vec<T> vs [T], String vs str"""
    x = re.sub(r"&'\{erased\} (mut )?|&(mut )?", "", x)
    for _ in range(4):
        x = re.sub(r"std::vec::Vec<(.+), std::alloc::Global>", r"[\1]", x)
        x = re.sub(r"std::boxed::Box<(.+), std::alloc::Global>", r"\1", x)
    x = x.replace("std::string::String", "str")
    x = re.sub(r"/#\d+", "", x)          # generic parameter positions differ between the sibling impls
    return x


def delegate_inner(b, pattern):
    """inner types of the delegating trait calls in b (calls matching pattern on another type's impl)"""
    return sorted({norm_ty(first_ga(t)) for _, t in b.calls(pattern) if first_ga(t)})


def vk_class(F, b):
    dele = [t for _, t in b.calls(r"::value_kind$")]
    if dele:
        return ("delegate",)
    vs = set()
    for v in b.fn.vars:
        m = re.search(r"::(ValueKind|ScryptoCustomValueKind|ManifestCustomValueKind)::(\w+)$", v)
        if m:
            vs.add(m.group(2))
    vs.discard("Custom")
    if len(vs) == 1:
        return ("kind", vs.pop())
    return None


WELL_KNOWN_HELPERS = {
    "named_enum": "Enum", "enum_variants": "Enum", "named_struct": "Tuple", "named_tuple": "Tuple",
    "struct_with_named_fields": "Tuple", "struct_with_unnamed_fields": "Tuple", "struct_with_unit_fields": "Tuple", "array_of": "Array",
}
CUSTOM_TK = {"Reference": "Reference", "Own": "Own", "Decimal": "Decimal", "PreciseDecimal": "PreciseDecimal", "NonFungibleLocalId": "NonFungibleLocalId"}


def td_class(F, name, depth=0):
    """TypeKind class declared by a type_data-like function (follows well-known helper functions, bounded)"""
    if name not in F.fns or depth > 4:
        return None
    f = F.fns[name]
    callees = [c[0] for c in f.calls]
    last = [re.sub(r"<[^<>]*>", "", c).rsplit("::", 1)[-1] for c in callees]
    if "enum_variants" in last or "named_enum" in last:
        return ("kind", "Enum")
    for h in ("named_struct", "struct_with_named_fields", "struct_with_unnamed_fields", "struct_with_unit_fields"):
        if h in last:
            return ("kind", "Tuple")
    if "array_of" in last:
        return ("kind", "Array")
    dele = [c for c in callees if c.endswith("::type_data") and c.startswith("<")]
    if dele:
        return ("delegate",)
    tks = set()
    for v in f.vars:
        m = re.search(r"::(TypeKind|ScryptoCustomTypeKind)::(\w+)$", v)
        if m:
            tks.add(m.group(2))
    tks.discard("Custom")
    if len(tks) == 1:
        return ("kind", tks.pop())
    inner = [c for c in callees if re.search(r"well_known\w*::\w+_type_data$|::(\w+)_type_data$", c) and c in F.fns]
    cls = {td_class(F, c, depth + 1) for c in inner}
    cls.discard(None)
    if len(cls) == 1:
        return cls.pop()
    if "named_tuple" in last:
        return ("kind", "Tuple")
    return None


# value kind written by the codec  <->  type kind declared by the schema
def kinds_agree(vk, tk):
    if vk == tk or tk == "Any":      # a schema of kind Any accepts every payload
        return True
    if (vk, tk) in {("Address", "Reference"), ("Bucket", "Own"), ("Proof", "Own"), ("AddressReservation", "Own")}:
        return True   # manifest-side value kinds of types whose schema is the Scrypto one (never paired within one family; kept for clarity)
    return False


def enc_table(F, b, self_ty):
    """Encode::encode_body -> ('tuple', n) | ('enum', {d: n}) | ('delegate',) | None"""
    if b.calls(r"Encode(<[^>]*>)?>::encode_body$|::encode_body$"):
        return ("delegate",)
    wd = b.calls(r"Encoder(<[^>]*>)?(>)?::write_discriminator$")
    ws = b.calls(r"Encoder(<[^>]*>)?(>)?::write_size$")
    if not wd:
        if len(ws) == 1:
            n = const_arg(b, ws[0][1], 1)
            return ("tuple", n) if n is not None else None
        return None
    tbl = {}
    for bb, t in wd:
        d = const_arg(b, t, 1)
        nxt = bfs_calls(b, t["t"], r"Encoder(<[^>]*>)?(>)?::write_size$") if t["t"] is not None else []
        if d is None or len(nxt) != 1:
            return None
        n = const_arg(b, nxt[0][1], 1)
        if n is None or d in tbl:
            return None
        tbl[d] = n
    return ("enum", tbl)


def dec_table(F, b):
    if b.calls(r"Decode(<[^>]*>)?>::decode_body_with_value_kind$|::decode_body_with_value_kind$"):
        return ("delegate",)
    rd = b.calls(r"Decoder(<[^>]*>)?(>)?::read_discriminator$")
    rs = b.calls(r"Decoder(<[^>]*>)?(>)?::read_and_check_size$")
    if not rd:
        if len(rs) == 1:
            n = const_arg(b, rs[0][1], 1)
            return ("tuple", n) if n is not None else None
        return None
    tbl = {}
    sw = [sb for sb in b.switches() if (b.switch_info(sb) or {}).get("kind") == "int"
          and any(a.kind == "call" and a.what.endswith("::read_discriminator") for a in b.switch_info(sb)["atoms"])]
    if len(sw) != 1:
        return None
    si = b.switch_info(sw[0])
    for v, succ in si["edges"].items():
        nxt = bfs_calls(b, succ, r"Decoder(<[^>]*>)?(>)?::read_and_check_size$", stop_blocks=[sw[0]])
        if len(nxt) != 1:
            return None
        n = const_arg(b, nxt[0][1], 1)
        if n is None:
            return None
        tbl[int(v)] = n
    # the otherwise arm must reject (unknown discriminator)
    if si["otherwise"] is not None and not doomed(b, si["otherwise"]):
        return ("enum-accepts-unknown", tbl)
    return ("enum", tbl)


def desc_table(F, b):
    """Describe::type_data (straight-line bodies only) -> ('tuple', n) | ('enum', {d: n}) | ('delegate',) | None"""
    if b.switches():
        return None
    order, seen, cur = [], set(), 0
    while cur is not None and cur not in seen:
        seen.add(cur)
        order.append(cur)
        s = [x for x in b.succs(cur) if not b.blocks[x].get("cu")]
        cur = s[0] if len(s) == 1 else None
    last_arr, last_struct, tbl, kind = None, None, {}, None
    for bb in order:
        for st in b.stmts(bb):
            if st["k"] == "=" and st["rv"]["k"] == "agg" and st["rv"].get("ak") == "array":
                last_arr = len(st["rv"]["ops"])
        t = b.term(bb)
        if t["k"] != "call":
            continue
        f = re.sub(r"<[^<>]*>", "", t["f"])
        last = f.rsplit("::", 1)[-1]
        if f.endswith("Vec::new") or last == "new" and "::Vec" in f:
            last_arr = 0
        elif last in ("struct_with_named_fields", "struct_with_unnamed_fields", "no_child_names"):
            if last_arr is None:
                return None
            last_struct, last_arr = last_arr, None
            kind = kind or "tuple"
        elif last == "struct_with_unit_fields":
            last_struct = 0
            kind = kind or "tuple"
        elif last == "insert" and "IndexMap" in f:
            d = const_arg(b, t, 1)
            if d is None or last_struct is None or d in tbl:
                return None
            tbl[d] = last_struct
            last_struct = None
        elif last == "enum_variants":
            kind = "enum"
        elif last == "type_data" and t["f"].startswith("<"):
            return ("delegate",)
    if kind == "enum":
        return ("enum", tbl)
    if kind == "tuple" and last_struct is not None:
        return ("tuple", last_struct)
    return None


def run(ctx):
    F = ctx.F
    impls = defaultdict(dict)
    for n in F.fns:
        m = PAT.match(n)
        if m and (m.group(1).startswith(SCOPE) or F.fns[n].crate in CRATES):
            impls[m.group(1)].setdefault(fam(m.group(3)), {})[m.group(4)] = n
    ctx.floor("sbor-types", len(impls), 1300)
    ctx.rule("T8 kind agreement: for every type with a Categorize::value_kind and a Describe::type_data in the same custom-kind family, the value kind "
             "the codec writes equals the type kind the schema declares (Tuple/Enum/Array/..., or the same custom kind); transparent types delegate on both sides")
    ctx.rule("T8 arity agreement: for every derived-shape struct the field count of Encode::encode_body (write_size), Decode (read_and_check_size) and "
             "Describe::type_data (length of the field list) are equal; for every derived-shape enum the (discriminator -> field count) tables of "
             "Encode, Decode and Describe are equal and Decode rejects unknown discriminators")
    stats = defaultdict(int)
    undecided = []
    for ty in sorted(impls):
        fams = impls[ty]
        for fm, d in sorted(fams.items()):
            short = ty.rsplit("::", 1)[-1] + "/" + fm
            desc = d.get("type_data")
            if not desc and fm != "M":
                for alt in ("G", "S", "N"):
                    if alt != fm and "type_data" in fams.get(alt, {}) and (fm == "G" or alt == "G"):
                        desc = fams[alt]["type_data"]
                        break
            if not desc and fm == "M" and "encode_body" not in fams.get("S", {}) and "encode_body" not in fams.get("G", {}):
                # ManifestSbor + ScryptoDescribe types: the only codec is the manifest one; its shape is what the (Scrypto) schema describes
                desc = fams.get("S", {}).get("type_data") or fams.get("G", {}).get("type_data")
                cross = True
            else:
                cross = False
            # ---- kind agreement
            if "value_kind" in d and desc and not cross:
                vb = ctx.body(d["value_kind"])
                vk = vk_class(F, vb)
                tk = td_class(F, desc)
                if vk is None or tk is None:
                    stats["kind-undecided"] += 1
                    undecided.append(f"kind {short}: vk={vk} tk={tk}")
                elif vk[0] == "delegate" or tk[0] == "delegate":
                    # a transparent wrapper: both sides must delegate, or the well-known schema names the inner kind (decided through the inner type)
                    stats["kind-delegating"] += 1
                else:
                    stats["kind-decided"] += 1
                    ok = kinds_agree(vk[1], tk[1])
                    ctx.ob(f"kind|{ty}|{fm}", ok, f"{short}: codec value kind {vk[1]}, schema type kind {tk[1]}", F.fns[d["value_kind"]].loc())
            # ---- arity agreement
            if "encode_body" not in d and "decode_body_with_value_kind" not in d:
                continue
            et = enc_table(F, ctx.body(d["encode_body"]), ty) if "encode_body" in d else None
            dt = dec_table(F, ctx.body(d["decode_body_with_value_kind"])) if "decode_body_with_value_kind" in d else None
            st = desc_table(F, ctx.body(desc)) if desc else None
            if dt and dt[0] == "enum-accepts-unknown":
                ctx.ob(f"decode-rejects-unknown-discriminator|{ty}|{fm}", False, f"{short}: the decoder's catch-all discriminator arm can reach Ok", F.fns[d["decode_body_with_value_kind"]].loc())
                dt = ("enum", dt[1])
            # ---- transparent wrappers: every delegating impl delegates to the same inner type
            inner = {}
            for key, pat_ in (("value_kind", r"Categorize(<[^>]*>)?>::value_kind$"), ("encode_body", r"Encode(<[^>]*>)?>::encode_body$"),
                              ("decode_body_with_value_kind", r"Decode(<[^>]*>)?>::decode_body_with_value_kind$")):
                if key in d:
                    x = delegate_inner(ctx.body(d[key]), pat_)
                    if x:
                        inner[key] = x
            if desc:
                x = delegate_inner(ctx.body(desc), r"Describe(<[^>]*>)?>::type_data$")
                if x:
                    inner["type_data"] = x
            if len(inner) >= 2 and et and et[0] == "delegate" and not cross:
                stats["transparent-decided"] += 1
                same = len({tuple(v) for v in inner.values()}) == 1
                ctx.ob(f"transparent|{ty}|{fm}", same, f"{short}: delegates to " + "; ".join(f"{k}->{v}" for k, v in sorted(inner.items())),
                       F.fns[d["encode_body"]].loc())
            tabs = {"encode": et, "decode": dt, "describe": st}
            have = {k: v for k, v in tabs.items() if v and v[0] in ("tuple", "enum")}
            if len(have) < 2:
                stats["arity-undecided"] += 1
                continue
            shapes = {v[0] for v in have.values()}
            vals = {repr(sorted(v[1].items())) if v[0] == "enum" else repr(v[1]) for v in have.values()}
            ok = len(shapes) == 1 and len(vals) == 1
            stats["arity-decided"] += 1
            stats[f"arity-{'+'.join(sorted(have))}"] += 1
            site = F.fns[d.get("encode_body") or d.get("decode_body_with_value_kind")].loc()
            ctx.ob(f"arity|{ty}|{fm}", ok, f"{short}: " + "; ".join(f"{k}={v[0]}:{(dict(sorted(v[1].items())) if v[0]=='enum' else v[1])}" for k, v in sorted(have.items())), site)
    ctx.note("coverage: " + ", ".join(f"{k}={v}" for k, v in sorted(stats.items())))
    if undecided:
        ctx.note(f"kind-undecided ({len(undecided)}): " + "; ".join(undecided[:12]))
    ctx.floor("kind-decided", stats["kind-decided"], 1)
    ctx.floor("arity-decided", stats["arity-decided"], 1)
    ctx.rule("T8 sibling tables: every validator that matches a schema's ReferenceValidation against a node id (static Scrypto validator, the "
             "ValidatableCustomExtension<()> impl, the engine's runtime validator) maps each variant to the same NodeId predicate, and that table "
             "is the audited one (IsGlobal -> is_global, ... ) — the typed codecs accept exactly what these predicates describe")
    from c15 import arm_regions
    CANON = {"IsGlobal": ["is_global"], "IsGlobalPackage": ["is_global_package"], "IsGlobalComponent": ["is_global_component"],
             "IsGlobalResourceManager": ["is_global_resource_manager"], "IsGlobalTyped": ["is_global"], "IsInternal": ["is_internal"],
             "IsInternalTyped": ["is_internal"]}
    tables = {}
    for name, f in sorted(F.fns.items()):
        if not any(re.search(r"NodeId::is_\w+$", c[0]) for c in f.calls):
            continue
        b = ctx.body(name)
        for bb, ed, ow, si in b.enum_guards(r"::ReferenceValidation$"):
            ex = arm_regions(b, bb, ed)
            tab = {v: sorted({t["f"].rsplit("::", 1)[-1] for x, t in b.calls(r"NodeId::is_\w+$") if x in reg}) for v, reg in ex.items()}
            if any(tab.values()):
                tables[name] = (tab, ow, b.loc(bb))
    ctx.floor("reference-validation-tables", len(tables), 3)
    for name, (tab, ow, loc) in sorted(tables.items()):
        short = ".".join(re.sub(r"<[^<>]*>", "", name).split("::")[-2:])
        ctx.ob(f"reference-validation-table|{short}", tab == CANON and ow is None,
               f"{short}: {tab}" + ("" if tab == CANON and ow is None else f" differs from the audited table {CANON}"), loc)
    ctx.assume("child type ids, validations and custom-value payload contents are not compared; manual codecs whose shape is not the derive's "
               "(delegating / hand-written) are counted as undecided, not as agreeing")
