"""C06 Fees are fully paid and exactly distributed — limit/gating clauses (no arithmetic clause is decided)."""
import re
from lib import *

FR = "radix_engine::system::system_modules::costing::fee_reserve::"
SL = FR + "SystemLoanFeeReserve"
SC = "radix_engine::system::system_callback::System"


_is_bal = lambda a: a.proj[-1:] == (".xrd_balance",)
BAL_OK = G_not_less(_is_bal, lambda a: not _is_bal(a), "xrd_balance >= amount (any syntactic form)")


def place_is_field(p, field):
    return isinstance(p, list) and p and p[-1] == "." + field


def field_update_blocks(b, field):
    """blocks that update self.<field>: overflow-checked `+=`/`-=` on the field, direct assignment, or an op-assign call on it"""
    out = []
    for i in range(b.n):
        for s in b.stmts(i):
            if s["k"] == "=" and place_is_field(s["p"], field):
                out.append(i)
        t = b.term(i)
        if t["k"] == "call" and re.search(r"::(sub_assign|add_assign)$", t["f"]) and t["args"]:
            for a in b.origins(t["args"][0]):
                if "." + field in a.proj:
                    out.append(i)
    return sorted(set(out))


def run(ctx):
    F = ctx.F
    ctx.rule("T4+T2: cost units are committed only by consume_{execution,finalization}_internal, each commit behind "
             "check_*_cost_unit_limit(cost_units)? with the same operand and behind the `xrd_balance < amount` == false test; the "
             "limit checks return Ok only when committed + new <= limit")
    for kind in ("execution", "finalization"):
        fld = f"{kind}_cost_units_committed"
        writers = {f.root: f for f in F.fns.values() if f"{SL}.{fld}" in f.fw}
        check_who_may(ctx, f"who-commits-{kind}-units", writers, {re.escape(SL) + f"::consume_{kind}_internal$": "the guarded committer",
                                                                  re.escape(SL) + r"::new$": "initialisation"}, f"writer of {fld}")
        n = f"{SL}::consume_{kind}_internal"
        if ctx.anchor(n):
            b = ctx.body(n)
            commit = field_update_blocks(b, fld)
            local_ded = field_update_blocks(b, "xrd_balance")
            # the balance deduction may live in a helper method of the reserve that this function calls with `?`
            helpers = {}
            for bb, t in b.calls(re.escape(SL) + r"::\w+$"):
                callee = t["f"]
                if callee in F.fns and callee != n and not callee.endswith(f"::check_{kind}_cost_unit_limit"):
                    hb = ctx.body(callee)
                    if field_update_blocks(hb, "xrd_balance"):
                        helpers[callee] = (bb, t, hb)
            lim = G_try(re.escape(SL) + f"::check_{kind}_cost_unit_limit$")
            if local_ded:
                check_guarded(ctx, f"consume_{kind}_internal|commit", b, commit + local_ded, [lim, BAL_OK],
                              "cost-unit commit / balance deduction", min_targets=2)
            elif helpers:
                for callee, (hbb, ht, hb) in sorted(helpers.items()):
                    hs = callee.rsplit("::", 1)[-1]
                    check_guarded(ctx, f"consume_{kind}_internal|commit", b, commit, [lim, G_try(re.escape(callee) + "$")],
                                  f"cost-unit commit (deduction in helper {hs})", min_targets=1)
                    check_guarded(ctx, f"consume_{kind}_internal|helper-call-after-limit-check", b, [hbb], [lim], f"call of {hs}")
                    check_guarded(ctx, f"consume_{kind}_internal|{hs}|deduction-behind-balance-test", hb, field_update_blocks(hb, "xrd_balance"),
                                  [BAL_OK], f"balance deduction in {hs}")
            else:
                ctx.ob(f"consume_{kind}_internal|commit", False, "no deduction of xrd_balance found in consume_*_internal or a reserve helper it calls", b.loc())
            for bb, t in b.calls(re.escape(SL) + f"::check_{kind}_cost_unit_limit$"):
                ctx.ob(f"consume_{kind}_internal|same-operand", origin_names(b, t["args"][1]) == {"param:2"}, f"limit check operand: {origin_names(b, t['args'][1])}", b.loc(bb))
            # closed world of unit prices: the deduction is priced with the tip-inclusive cached price of this cost category and no other price
            prices = set()
            bodies = [b] + [hb for _, _, hb in helpers.values()]
            for x in bodies:
                for fr in x.fn.fr:
                    if fr.endswith("cost_unit_price"):
                        prices.add(fr.rsplit(".", 1)[1])
                for bb, t in x.calls(re.escape(SL) + r"::\w*cost_unit_price$"):
                    acc = t["f"]
                    got = {fr.rsplit(".", 1)[1] for fr in (F.fns[acc].fr if acc in F.fns else []) if fr.endswith("cost_unit_price")}
                    prices |= {g + " (via " + acc.rsplit("::", 1)[-1] + "())" for g in got} or {acc.rsplit("::", 1)[-1] + "()"}
            want = {f"effective_{kind}_cost_unit_price"}
            ctx.ob(f"consume_{kind}_internal|priced-with-the-effective-{kind}-price-only", prices == want,
                   f"unit prices consulted when deducting {kind} cost units: {sorted(prices)} (finalize() and the commit-time assertion charge the tip on these units, "
                   f"so the deduction must use the tip-inclusive {sorted(want)[0]})", b.loc())
        n = f"{SL}::check_{kind}_cost_unit_limit"
        if ctx.anchor(n):
            b = ctx.body(n)
            gs = [sb for sb in field_guards(b, f"{kind}_cost_unit_limit")]
            ok = bool(gs)
            for sb in gs:
                si = b.switch_info(sb)
                # Gt(committed+new, limit): Ok only on the false edge
                ok = ok and si["kind"] == "bool" and doomed(b, si["true"]) and not doomed(b, si["false"])
                dn = origin_names(b, b.term(sb)["o"], deep=True)
                ok = ok and any("checked_add" in x for x in dn) and "param:2" in dn
            ctx.ob(f"check_{kind}_cost_unit_limit|rejects-above-limit", ok, f"limit comparison at bb{gs}: exceeding arm doomed, depends on checked_add(committed, new)", b.loc())
    ctx.rule("argument origin in SystemLoanFeeReserve::new: effective_{execution,finalization}_cost_unit_price = costing_parameters.<kind>_cost_unit_price x tip.fee_multiplier()")
    n = SL + "::new"
    if ctx.anchor(n):
        b = ctx.body(n)
        found = {}
        for i in range(b.n):
            for st in b.stmts(i):
                if st["k"] == "=" and st["rv"]["k"] == "agg" and (st["rv"].get("adt") or "").endswith("::SystemLoanFeeReserve"):
                    for fname, op in zip(st["rv"].get("fields", []), st["rv"]["ops"]):
                        if fname.startswith("effective_"):
                            found[fname] = (i, op)
        for kind in ("execution", "finalization"):
            fname = f"effective_{kind}_cost_unit_price"
            if fname not in found:
                ctx.ob(f"new|{fname}", False, "field initialiser not found", b.loc())
                continue
            i, op = found[fname]
            ats = b.origins(op, deep=True)
            base = any(a.proj and a.proj[-1] == f".{kind}_cost_unit_price" for a in ats)
            other = [a.proj[-1] for a in ats if a.proj and a.proj[-1].endswith("_cost_unit_price") and a.proj[-1] != f".{kind}_cost_unit_price"]
            mult = any(a.kind == "call" and a.what.endswith("::fee_multiplier") for a in ats)
            ctx.ob(f"new|{fname}", base and mult and not other, f"{fname} derives from .{kind}_cost_unit_price={base}, tip.fee_multiplier()={mult}, other prices={other}", b.loc(i))
    n = SL + "::consume_royalty_internal"
    if ctx.anchor(n):
        b = ctx.body(n)
        check_guarded(ctx, "consume_royalty_internal|balance", b, field_update_blocks(b, "xrd_balance") + field_update_blocks(b, "royalty_cost_committed"),
                      [BAL_OK], "royalty deduction", min_targets=2)
    n = SL + "::repay_all"
    if ctx.anchor(n):
        b = ctx.body(n)
        check_guarded(ctx, "repay_all|ok-only-if-nothing-owed", b, b.ok_exits(), [G_bool_call(r"Decimal::is_zero$|::is_zero$", True)], "Ok(()) of repay_all")
        for m in ("consume_execution_internal", "consume_finalization_internal"):
            check_guarded(ctx, f"repay_all|deferred-{m}", b, b.ok_exits(), [G_try(re.escape(SL) + "::" + m + "$")], "Ok(()) of repay_all")
    n = SL + "::fully_repaid"
    if ctx.anchor(n):
        b = ctx.body(n)
        ok = any(".xrd_owed" in a.proj for bb, k, s in b.defs(0) for a in (b.origins(s["args"][0], deep=True) if k == "call" else b.origins(s["rv"].get("o", s["p"]), deep=True)))
        ctx.ob("fully_repaid|reads-xrd_owed", ok, "fully_repaid() is a function of xrd_owed", b.loc())

    ctx.rule("T2 in finalize_fees_for_commit: the three sanity assertions (no bad debt, locked fee covers cost, collected == distributed) "
             "dominate the function's return: each is a Decimal equality whose unequal arm diverges")
    n = SC + "::finalize_fees_for_commit"
    if ctx.anchor(n):
        b = ctx.body(n)
        rets = b.returns()
        sane = []
        for sb in b.switches():
            si = b.switch_info(sb)
            if si["kind"] != "bool":
                continue
            eq = [a for a in si["atoms"] if a.kind == "call" and re.search(r"PartialEq(<.*>)?(>)?::eq$", a.what + "|" + a.extra["fd"]) and "Decimal" in a.extra.get("ga", "") + a.what]
            if not eq:
                continue
            fal = si["false"]
            if fal is None or (b.reach((fal,)) & set(rets)):
                continue   # the unequal arm must not return
            if not b.unreachable_without(rets, [(sb, si["true"])])[0]:
                continue
            ops = eq[0].extra["args"][:2]
            tags = set()
            for o in ops:
                for a in b.origins(o, deep=True):
                    if ".total_bad_debt_in_xrd" in a.proj:
                        tags.add("bad-debt")
                    if a.kind == "call" and re.search(r"to_(proposer|validator_set|burn)_amount$", a.what):
                        tags.add("distribution")
            sane.append((sb, sorted(tags)))
        ctx.ob("finalize_fees|sanity-assertions", len(sane) >= 3, f"dominating diverge-on-unequal Decimal equalities: {sane}", b.loc())
        ctx.ob("finalize_fees|bad-debt-assert", any("bad-debt" in t for _, t in sane), "an assertion tests total_bad_debt_in_xrd", b.loc())
        ctx.ob("finalize_fees|distribution-assert", any("distribution" in t for _, t in sane), "an assertion compares collected fees with proposer+validator-set+burn", b.loc())
        # refund: every take_by_amount from a paying vault is followed by put(locked) back
        tk = b.calls(r"LiquidFungibleResource::take_by_amount$")
        pt = [bb for bb, _ in b.calls(r"LiquidFungibleResource::put$")]
        ok = bool(tk) and bool(pt)
        ctx.ob("finalize_fees|refund-present", ok, f"{len(tk)} take_by_amount and {len(pt)} put site(s) (unused locked fee is put back)", b.loc())

    ctx.rule("T7: every FeeReserveError variant is produced; every CostingParameters field is read by the fee reserve / costing code")
    check_variants_live(ctx, "FeeReserveError", FR + "FeeReserveError", r"^(<)?radix_engine::system::", conditional=False)
    CP = "radix_engine::system::system_modules::costing::costing_entry::CostingParameters"
    cands = [e for e in set(x.rsplit(".", 1)[0] for f in F.fns.values() for x in f.fr) if e.endswith("::CostingParameters")]
    for adt in cands[:1]:
        fields = struct_fields(ctx, adt)
        ctx.ob("CostingParameters|fields-known", len(fields) >= 6, f"{adt} fields: {fields}")
        for fl in fields:
            rs = field_readers(F, adt, fl, r"^(<)?radix_engine::system::")
            ctx.ob(f"CostingParameters|{fl}-read", bool(rs), f"{fl} read by {[r.split('::')[-1] for r in rs][:4]}")
    if not cands:
        ctx.ob("CostingParameters|anchor", False, "CostingParameters struct not found")
    ctx.assume("every arithmetic clause (total = sum of parts, tip rounding, distribution split, royalty routing amounts) is value-level and not decided")
