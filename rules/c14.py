"""C14 A database overlay behaves like the database with the commits applied — precedence clause: the root is consulted only where the
overlay says nothing; a reset partition never falls through to the root."""
import re
from lib import *
from c15 import arm_regions

CONFIGS = ("A",)
O = "radix_substate_store_impls::substate_database_overlay::"
IMPL = "<" + O + "SubstateDatabaseOverlay as radix_substate_store_interface::interface::SubstateDatabase>::"
STG = O + "StagingPartitionDatabaseUpdates"
ROOT_READ = r"SubstateDatabase(>)?::(get_raw_substate_by_db_key|list_raw_values_from_db_key)$"


def run(ctx):
    F = ctx.F
    ctx.rule("T5/T2 in the overlay's point read: the root database is read only when the overlay lookup is NotFound; the lookup is NotFound only "
             "when the node, the partition or (for a Delta) the key is absent from the overlay; a Reset partition always yields Found")
    n = IMPL + "get_raw_substate_by_db_key"
    if ctx.anchor(n):
        b = ctx.body(n)
        root = [bb for bb, t in b.calls(ROOT_READ) if "SubstateDatabaseOverlay" not in t["f"] or True]
        root = [bb for bb, t in b.calls(ROOT_READ)]
        ctx.floor("point-read|root-read-sites", len(root), 1)
        check_guarded(ctx, "point-read|root-only-when-not-found", b, root, [G_enum(re.escape(O) + r"OverlayLookupResult$", ["NotFound"])], "read of the root database")
        gs = b.enum_guards(re.escape(STG) + "$")
        ctx.ob("point-read|partition-match", len(gs) >= 1, f"{len(gs)} match(es) on StagingPartitionDatabaseUpdates", b.loc())
        nf = agg_blocks(b, re.escape(O) + r"OverlayLookupResult$", "NotFound")
        for bb, ed, ow, si in gs:
            if "Reset" in ed:
                r = b.reach((ed["Reset"],), blocked_blocks=[bb])
                # blocks exclusive to the Reset arm
                ex = arm_regions(b, bb, ed).get("Reset", set())
                ctx.ob("point-read|reset-never-falls-through", not (ex & set(nf)), "the Reset arm never produces NotFound (a reset partition hides the root)", b.loc(bb))
        du = b.enum_guards(r"state_updates::DatabaseUpdate$")
        for bb, ed, ow, si in du:
            ctx.ob("point-read|delete-is-found-none", ow is None and set(ed) == {"Set", "Delete"}, f"match on DatabaseUpdate arms {sorted(ed)}", b.loc(bb))

    ctx.rule("T5 in the overlay's listing: a Reset partition lists only the overlay's new values (no root listing in that arm); a Delta "
             "partition merges the root listing with the overlay through OverlayingIterator; an untouched partition delegates to the root")
    n = IMPL + "list_raw_values_from_db_key"
    if ctx.anchor(n):
        b = ctx.body(n)
        gs = b.enum_guards(re.escape(STG) + "$")
        ctx.ob("listing|partition-match", len(gs) >= 1, f"{len(gs)} match(es) on StagingPartitionDatabaseUpdates", b.loc())
        root = set(bb for bb, _ in b.calls(ROOT_READ))
        ov = set(bb for bb, _ in b.calls(r"OverlayingIterator(<.*>)?::new$"))
        for bb, ed, ow, si in gs:
            ex = arm_regions(b, bb, ed)
            if "Reset" in ed:
                ctx.ob("listing|reset-lists-overlay-only", not (ex.get("Reset", set()) & root), "the Reset arm never lists the root database", b.loc(bb))
            if "Delta" in ed:
                reg = b.reach((ed["Delta"],), blocked_blocks=[bb])
                ctx.ob("listing|delta-overlays-root", bool(reg & root) and bool(reg & ov), "the Delta arm lists the root and merges it through OverlayingIterator", b.loc(bb))
        ctx.ob("listing|untouched-delegates", len(root) >= 2, f"{len(root)} root listing site(s) (Delta arm + untouched node/partition)", b.loc())

    ctx.rule("T5: committing into the overlay handles Set/Delete/Delta/Reset without a catch-all (a Reset replaces whatever the overlay held "
             "for the partition)")
    cm = [x for x in F.fns if x.startswith("<" + O + "SubstateDatabaseOverlay as ") and x.endswith("CommittableSubstateDatabase>::commit")]
    for c in cm:
        for b in ctx.bodies_of(c):
            for en in (r"interface::PartitionDatabaseUpdates$", re.escape(STG) + "$", r"state_updates::DatabaseUpdate$"):
                for bb, ed, ow, si in b.enum_guards(en):
                    full = set(F.enums.get(si["enum"], {}).values())
                    ctx.ob(f"commit|{si['enum'].split('::')[-1]}|exhaustive", ow is None or not (full - set(ed)), f"arms {sorted(ed)} otherwise={ow}", b.loc(bb))
    ctx.ob("commit|anchor", len(cm) >= 1, f"overlay commit impl(s): {len(cm)}")
    ctx.rule("T4 on the staged Delta map: when a later commit is merged into an overlay partition that is in Delta mode, entries are only added or "
             "overwritten — the staged `substate_updates` map is never shrunk (remove / retain / clear): an incoming Delete must stay recorded as "
             "a tombstone, because the staged Set it meets may be shadowing a value of the root (only a Reset partition's "
             "`new_substate_values` may lose entries: the reset already hides the root)")
    mg = [x for x in F.fns if x.endswith("substate_database_overlay::merge_database_updates")]
    ctx.ob("merge|anchor", len(mg) == 1, f"merge_database_updates: {len(mg)}")
    for x in mg[:1]:
        shrink, grows = [], 0
        for b in ctx.bodies_of(x):
            for bb, t in b.calls(r"::(remove|remove_entry|swap_remove|shift_remove|retain|clear|pop_first|pop_last|split_off|drain)$"):
                if any("@Delta" in a.proj and ".substate_updates" in a.proj for a in b.origins(t["args"][0])):
                    shrink.append((t["f"].rsplit("::", 1)[-1], b.loc(bb)))
            for bb, t in b.calls(r"::(extend|insert)$"):
                if any("@Delta" in a.proj and ".substate_updates" in a.proj for a in b.origins(t["args"][0])):
                    grows += 1
        ctx.ob("merge|delta-map-never-shrinks", not shrink and grows >= 1,
               f"the staged Delta map is only extended/overwritten ({grows} site(s))" if not shrink else
               f"the staged Delta map loses entries ({[s_[0] for s_ in shrink]}): a Delete that cancels a staged Set lets the root's old value show through", shrink[0][1] if shrink else "")
    ctx.assume("equality of reads/listings with 'base + commits applied' (merge order inside OverlayingIterator, cursor handling) is value-level and NOT decided")
