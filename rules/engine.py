"""Check runner: obligations, known findings, evidence, verdict lines."""
import json
import os
import re
import sys
import time

import facts
import mir

VERIF = facts.VERIF
KNOWN = os.path.join(VERIF, "known_findings.txt")
EVDIR = os.environ.get("VERIF_EVIDENCE_DIR") or os.path.join(VERIF, "evidence")


def load_known():
    """known: property=Cnn key=<semantic key> <what fails>   |   fixed: property=Cnn <commit> <what failed>"""
    known = {}
    fixed = []
    if os.path.exists(KNOWN):
        for line in open(KNOWN):
            line = line.strip()
            if not line or line.startswith("#"):
                continue
            m = re.match(r"known:\s+property=(C\d+)\s+key=(\S+)\s+(.*)$", line)
            if m:
                known.setdefault(m.group(1), {})[m.group(2)] = m.group(3)
                continue
            m = re.match(r"fixed:\s+property=(C\d+)\s+(\S+)\s+(.*)$", line)
            if m:
                fixed.append((m.group(1), m.group(2), m.group(3)))
    return known, fixed


class Ctx:
    def __init__(self, prop, tier, configs):
        self.prop = prop
        self.tier = tier
        self.t0 = time.time()
        self.fs, self.tree = facts.load(configs)
        self.F = self.fs.get("A")
        self.FB = self.fs.get("B")
        self.obs = []          # (key, ok, detail, loc)
        self.samples = []
        self.notes = []
        self.assumptions = []
        self.rules = []
        self.analysed_fns = set()
        self.level = "proof"
        self.explanation = None
        self._bodies = {}
        self.sensitivity = None

    # -- access
    def body(self, name, F=None):
        F = F or self.F
        k = (F.config, name)
        if k not in self._bodies:
            if name not in F.fns:
                return None
            self._bodies[k] = mir.Body(F, name)
            self.analysed_fns.add(name)
        return self._bodies[k]

    def bodies_of(self, root, F=None):
        F = F or self.F
        return [self.body(n, F) for n in sorted(F.by_root().get(root, []))]

    # -- obligations
    def ob(self, key, ok, detail="", loc=""):
        """record one obligation; `key` is semantic (no line numbers)"""
        self.obs.append((key, bool(ok), detail, loc))
        return bool(ok)

    def floor(self, key, count, minimum, what=""):
        """fail closed: a rule whose instances disappeared must not pass vacuously"""
        return self.ob(f"floor|{key}", count >= minimum,
                       f"{what or key}: found {count} instance(s), confirmed minimum is {minimum}")

    def anchor(self, name, F=None):
        """the named function must exist (fail closed on a missing anchor)"""
        F = F or self.F
        ok = name in F.fns
        if not ok:
            self.ob(f"anchor|{name}", False, "anchor function not found in the analysed program (renamed/moved? "
                                            "update the rule table only after confirming the property still holds)")
        return ok

    def sample(self, s):
        if len(self.samples) < 12:
            self.samples.append(s)

    def rule(self, text):
        self.rules.append(text)

    def note(self, text):
        self.notes.append(text)

    def assume(self, text):
        self.assumptions.append(text)


BASE_ASSUMPTIONS = [
    "decides only the structural clause(s) named in rules_applied, not the behavioural property as a whole",
    "analysed configuration: default features (std, moka) of the execution/library crates under rustc nightly "
    "MIR at mir-opt-level=0; no_std/alloc, fuzzing, coverage, resource_tracker and cfg(test) code is not analysed",
    "calls through trait methods on type parameters / dyn are matched by their declared trait method "
    "(class-hierarchy over-approximation for reachability)",
    "trusted base: rustc's MIR construction, the /verif driver, the python rule engine, the audited tables in the rule file",
]


def finish(ctx):
    known, fixed = load_known()
    kn = known.get(ctx.prop, {})
    viol = []
    known_hit = []
    for key, ok, detail, loc in ctx.obs:
        if ok:
            continue
        if key in kn:
            known_hit.append((key, kn[key]))
        else:
            viol.append((key, detail, loc))
    for key, what in known_hit:
        print(f"KNOWN-FINDING: property={ctx.prop} {key} {what}")
    n_ob = len(ctx.obs)
    n_ok = sum(1 for o in ctx.obs if o[1])
    wall = time.time() - ctx.t0
    # the level is the one claimed in the registry (MANIFEST is generated from it); a rule file may only refine the explanation
    try:
        import registry
        claimed = registry.CLAIMED.get(ctx.prop)
        if claimed:
            ctx.level = claimed["level"]
            if ctx.level == "other" and not ctx.explanation:
                ctx.explanation = claimed["text"]
    except Exception:
        pass
    ev = {
        "property_id": ctx.prop,
        "tier": ctx.tier,
        "seed": int(os.environ.get("VERIF_SEED", "0") or 0),
        "level": ctx.level,
        "coverage": {
            "obligations": n_ob,
            "discharged": n_ok,
            "checker_cmd": f"bin/check {ctx.prop} --tier {ctx.tier}",
            "trusted_base": ["rustc nightly MIR construction", "verif-driver fact extractor",
                             "python rule engine (rules/mir.py, rules/engine.py)",
                             f"audited tables in rules/{ctx.prop.lower()}.py"],
            "rules_applied": ctx.rules,
            "functions_analysed": len(ctx.analysed_fns),
            "functions_in_fact_db": sum(len(f.fns) for f in ctx.fs.values()),
            "tree_hash": ctx.tree,
            "samples": ctx.samples or [{"obligation": k, "ok": ok, "detail": d, "site": l} for k, ok, d, l in ctx.obs[:8]],
            "obligation_list": [{"key": k, "ok": ok, "site": l} for k, ok, d, l in ctx.obs][:400],
            "known_findings_matched": [k for k, _ in known_hit],
            "notes": ctx.notes,
            "sensitivity": ctx.sensitivity,
            "exhaustive": True,
        },
        "assumptions": BASE_ASSUMPTIONS + ctx.assumptions,
        "wall_s": round(wall, 2),
        "violations": len(viol),
    }
    if ctx.level == "other" or ctx.explanation:
        ev["coverage"]["explanation"] = ctx.explanation or ""
    os.makedirs(EVDIR, exist_ok=True)
    with open(os.path.join(EVDIR, f"{ctx.prop}.json"), "w") as fh:
        json.dump(ev, fh, indent=1, default=str)
    print(f"[{ctx.prop}] tier={ctx.tier} obligations={n_ob} discharged={n_ok} known={len(known_hit)} "
          f"violations={len(viol)} functions_analysed={len(ctx.analysed_fns)} wall={wall:.1f}s")
    vp0 = os.path.join(EVDIR, f"{ctx.prop}.violations.json")
    if not viol and os.path.exists(vp0):
        os.remove(vp0)
    if viol:
        vp = os.path.join(EVDIR, f"{ctx.prop}.violations.json")
        with open(vp, "w") as fh:
            json.dump([{"key": k, "detail": d, "site": l} for k, d, l in viol], fh, indent=1)
        for k, d, l in viol:
            print(f"FAIL {ctx.prop} {l} [{k}] {d}")
        print(f"VIOLATION property={ctx.prop} replay={vp}")
        return 1
    return 0


def main(argv):
    import importlib
    if len(argv) < 2:
        print("usage: check <Cnn> [--tier quick|thorough]")
        return 2
    prop = argv[1]
    tier = os.environ.get("VERIF_TIER", "quick")
    if "--tier" in argv:
        tier = argv[argv.index("--tier") + 1]
    if tier not in ("quick", "thorough"):
        tier = "quick"
    try:
        mod = importlib.import_module(prop.lower())
    except ModuleNotFoundError:
        print(f"no rule file for {prop}")
        return 2
    ctx = Ctx(prop, tier, getattr(mod, "CONFIGS", ("A",)))
    mod.run(ctx)
    if tier == "thorough" and not os.environ.get("VERIF_REPO"):
        ctx.sensitivity = run_sensitivity(prop)
    return finish(ctx)


def run_sensitivity(prop):
    """thorough tier: besides deciding the rules on /repo, re-establish that the checker still *fires*: every registered mutation of this
    property (hand-written one-instance mutations and confirmed sub-agent mutations) is applied to a scratch git worktree of /repo's current
    tree (never /repo itself) and the check is run against it; the scratch worktree and its fact cache are removed afterwards.
    A mutation whose anchor text no longer exists is skipped (reported), a missed one is reported as SENSITIVITY-LOST in the evidence."""
    import subprocess, shutil, tempfile
    sys.path.insert(0, os.path.join(VERIF, "selftest"))
    try:
        import mutations
    except Exception as e:  # pragma: no cover
        return {"error": str(e)}
    hand = [m for m in mutations.MUTATIONS if prop in m["props"]]
    sd = os.path.join(VERIF, "seeded")
    seeded = []
    if os.path.isdir(sd):
        for d in sorted(os.listdir(sd)):
            mp = os.path.join(sd, d, "meta.json")
            if os.path.exists(mp) and json.load(open(mp)).get("property") == prop:
                seeded.append(d)
    if not hand and not seeded:
        return {"mutations": 0}
    base = tempfile.mkdtemp(prefix=f"verif-sens-{prop}-")
    wt = os.path.join(base, "wt")
    cache = os.path.join(base, "cache")

    def sh(*a, **k):
        return subprocess.run(a, capture_output=True, text=True, **k)
    res = {"caught": [], "missed": [], "skipped": [], "benign_silent": [], "benign_false_alarm": []}
    try:
        r = sh("git", "-C", facts.REPO, "worktree", "add", "--detach", wt)
        if r.returncode:
            return {"error": "cannot create scratch worktree: " + r.stderr.strip()[:200]}
        d = sh("git", "-C", facts.REPO, "diff", "HEAD").stdout
        if d.strip():
            subprocess.run(["git", "-C", wt, "apply"], input=d, text=True)
        base_state = sh("git", "-C", wt, "diff").stdout
        env = dict(os.environ, VERIF_REPO=wt, VERIF_CACHE=cache, VERIF_KEEP_TARGET="1", VERIF_EVIDENCE_DIR=os.path.join(base, "ev"), VERIF_TIER="quick")

        def run_check(benign=False):
            rr = sh(os.path.join(VERIF, "bin", "check"), prop, "--tier", "quick", env=env)
            out = rr.stdout + rr.stderr
            if benign:
                return rr.returncode == 0 and "VIOLATION" not in out and "BROKEN" not in out
            return rr.returncode == 1 and f"VIOLATION property={prop}" in out and "BROKEN" not in out

        def reset():
            sh("git", "-C", wt, "checkout", "--", ".")
            if base_state.strip():
                subprocess.run(["git", "-C", wt, "apply"], input=base_state, text=True)
        for m in hand:
            edits = m.get("edits") or ([(m["file"], m["find"], m["replace"])] if "file" in m else [])
            ok = True
            if m.get("patch"):
                ok = sh("git", "-C", wt, "apply", os.path.join(VERIF, m["patch"])).returncode == 0
            for f, find, rep in edits:
                pth = os.path.join(wt, f)
                try:
                    cur = open(pth).read()
                except OSError:
                    ok = False
                    break
                if cur.count(find) != 1:
                    ok = False
                    break
                open(pth, "w").write(cur.replace(find, rep))
            if not ok:
                res["skipped"].append(m["name"])
                reset()
                continue
            if m.get("benign"):
                (res["benign_silent"] if run_check(True) else res["benign_false_alarm"]).append(m["name"])
            else:
                (res["caught"] if run_check() else res["missed"]).append(m["name"])
            reset()
        for dname in seeded:
            r = sh("git", "-C", wt, "apply", os.path.join(sd, dname, "patch.diff"))
            if r.returncode:
                res["skipped"].append(dname)
                reset()
                continue
            (res["caught"] if run_check() else res["missed"]).append(dname)
            reset()
    finally:
        sh("git", "-C", facts.REPO, "worktree", "remove", "--force", wt)
        shutil.rmtree(base, ignore_errors=True)
    for mname in res["missed"]:
        print(f"SENSITIVITY-LOST property={prop} mutation={mname} (the check no longer reports this known breakage)")
    for mname in res["benign_false_alarm"]:
        print(f"SENSITIVITY-FALSE-ALARM property={prop} refactor={mname} (the check reports a behaviour-preserving refactor)")
    res["mutations"] = len(hand) + len(seeded)
    return res


if __name__ == "__main__":
    sys.exit(main(sys.argv))
