"""CFG / dataflow primitives over the MIR facts dumped by the driver.

Only *normal* control flow is followed (unwind / cleanup edges are ignored): the rules are
about which guards a successful execution must have passed, not about unwinding.
"""
import re
from collections import deque

# calls whose result "is" their first argument for origin tracing purposes
PASS_THROUGH = re.compile(
    r"^(<.* as core::ops::(deref::)?Deref(Mut)?>::deref(_mut)?"
    r"|core::ops::(deref::)?Deref(Mut)?::deref(_mut)?"
    r"|<.* as core::clone::Clone>::clone|core::clone::Clone::clone"
    r"|<.* as core::convert::(Into|From|AsRef|AsMut)(<.*>)?>::(into|from|as_ref|as_mut)"
    r"|core::convert::(Into|From|AsRef|AsMut)::(into|from|as_ref|as_mut)"
    r"|<.* as core::borrow::Borrow(Mut)?(<.*>)?>::borrow(_mut)?"
    r"|core::borrow::Borrow(Mut)?::borrow(_mut)?"
    r"|<.* as core::ops::try_trait::Try>::branch|core::ops::try_trait::Try::branch"
    r"|<.* as core::ops::try_trait::FromResidual(<.*>)?>::from_residual"
    r"|core::result::Result(<[^>]*>)?::(map_err|as_ref|as_mut|ok|cloned|copied)"
    r"|core::option::Option(<[^>]*>)?::(as_ref|as_mut|cloned|copied|as_deref|ok_or|ok_or_else|take)"
    r"|<.* as alloc::borrow::ToOwned>::to_owned|alloc::borrow::ToOwned::to_owned"
    r"|alloc::vec::Vec::as_slice|alloc::string::String::as_str|alloc::boxed::Box::new"
    r"|core::mem::replace|core::mem::take"
    r"|core::(result::Result|option::Option)(<[^>]*>)?::(unwrap|expect|unwrap_or_default|unwrap_unchecked)"
    r")$")

# calls whose result is *derived from* their first argument (closure-transformed); followed only by deep origin queries
DERIVED_THROUGH = re.compile(
    r"^(core::(result::Result|option::Option)(<[^>]*>)?::(map|and_then|map_or|map_or_else|unwrap_or|unwrap_or_else|filter|or|or_else|ok_or|ok_or_else)"
    r")$")

TRY_BRANCH = re.compile(r"core::ops::try_trait::Try(>)?::branch$")
FROM_RESIDUAL = re.compile(r"core::ops::try_trait::FromResidual(<.*>)?(>)?::from_residual$")


class Atom:
    """one origin of a value"""
    __slots__ = ("kind", "what", "bb", "proj", "extra")

    def __init__(self, kind, what, bb=None, proj=(), extra=None):
        self.kind = kind      # param | const | call | agg | bin | disc | unknown | local
        self.what = what      # param index / const value-or-def / callee / adt::variant / op
        self.bb = bb
        self.proj = tuple(proj)
        self.extra = extra

    def __repr__(self):
        p = "".join(self.proj)
        return f"{self.kind}:{self.what}{p}" + (f"@bb{self.bb}" if self.bb is not None else "")

    def key(self):
        return (self.kind, str(self.what), self.bb, self.proj)


class Body:
    def __init__(self, F, name):
        self.F = F
        self.name = name
        self.fn = F.fns[name]
        self.b = F.body(name)
        self.blocks = self.b["blocks"]
        self.argc = self.b["argc"]
        self.locals = self.b["locals"]
        self.n = len(self.blocks)
        self._succ = [self._succs(i) for i in range(self.n)]
        self._pred = None
        self._defs = None
        self._prune_literal_switches()

    # ---------------------------------------------------------------- CFG
    def term(self, bb):
        return self.blocks[bb]["t"]

    def stmts(self, bb):
        return self.blocks[bb]["s"]

    def _succs(self, bb):
        t = self.blocks[bb]["t"]
        k = t["k"]
        if k == "goto":
            return [t["t"]]
        if k == "switch":
            o = t["o"]
            if o[0] == "k" and isinstance(o[1], dict) and o[1].get("v") is not None and "def" not in o[1]:
                # literal condition (`if false && ..`): only the matching edge is live
                lit = {"true": "1", "false": "0"}.get(str(o[1]["v"]), str(o[1]["v"]))
                for v, b in t["ts"]:
                    if str(v) == lit:
                        return [b]
                return [t["ow"]]
            out = [b for _, b in t["ts"]]
            out.append(t["ow"])
            return list(dict.fromkeys(out))
        if k in ("call",):
            return [t["t"]] if t["t"] is not None else []
        if k in ("assert", "drop"):
            return [t["t"]]
        return []

    def _prune_literal_switches(self):
        """`if false && c` is built as `_t = const false; switchInt(move _t)`: when the switch operand is a plain local whose only
        definition is a literal constant, only the matching edge is live"""
        for i in range(self.n):
            t = self.blocks[i]["t"]
            if t["k"] != "switch" or t["o"][0] == "k" or len(t["o"][1]) != 1:
                continue
            ds = self.defs(t["o"][1][0])
            if len(ds) != 1 or ds[0][1] != "=" or ds[0][2]["p"] != [t["o"][1][0]]:
                continue
            rv = ds[0][2]["rv"]
            if rv["k"] != "use" or rv["o"][0] != "k" or rv["o"][1].get("v") is None or "def" in rv["o"][1]:
                continue
            lit = {"true": "1", "false": "0"}.get(str(rv["o"][1]["v"]), str(rv["o"][1]["v"]))
            tgt = None
            for v, b in t["ts"]:
                if str(v) == lit:
                    tgt = b
            self._succ[i] = [tgt if tgt is not None else t["ow"]]

    def succs(self, bb):
        return self._succ[bb]

    def preds(self, bb):
        if self._pred is None:
            p = [[] for _ in range(self.n)]
            for i in range(self.n):
                for s in self._succ[i]:
                    p[s].append(i)
            self._pred = p
        return self._pred[bb]

    def reach(self, starts=(0,), blocked_edges=(), blocked_blocks=()):
        """blocks reachable from starts (inclusive) without using blocked edges / entering blocked blocks"""
        be = set(blocked_edges)
        bbk = set(blocked_blocks)
        seen = set()
        dq = deque(s for s in starts if s not in bbk)
        seen.update(dq)
        while dq:
            b = dq.popleft()
            for s in self._succ[b]:
                if s in seen or s in bbk or (b, s) in be:
                    continue
                seen.add(s)
                dq.append(s)
        return seen

    def path(self, start, goal, blocked_edges=(), blocked_blocks=()):
        be = set(blocked_edges)
        bbk = set(blocked_blocks)
        prev = {start: None}
        dq = deque([start])
        while dq:
            b = dq.popleft()
            if b == goal:
                out = []
                while b is not None:
                    out.append(b)
                    b = prev[b]
                return out[::-1]
            for s in self._succ[b]:
                if s in prev or s in bbk or (b, s) in be:
                    continue
                prev[s] = b
                dq.append(s)
        return None

    def returns(self):
        return [i for i in range(self.n) if self.blocks[i]["t"]["k"] == "ret"]

    def line(self, bb):
        t = self.blocks[bb]["t"]
        if "l" in t:
            return t["l"]
        for s in reversed(self.blocks[bb]["s"]):
            return s["l"]
        return self.fn.line

    def loc(self, bb=None):
        base = self.fn.loc().rsplit(":", 1)[0]
        return f"{base}:{self.line(bb) if bb is not None else self.fn.line}"

    # ---------------------------------------------------------------- calls
    def calls(self, pattern=None):
        """[(bb, term)] for call terminators whose resolved or declared callee matches pattern"""
        r = re.compile(pattern) if isinstance(pattern, str) else pattern
        out = []
        for i in range(self.n):
            t = self.blocks[i]["t"]
            if t["k"] == "call" and not self.blocks[i].get("cu"):
                if r is None or r.search(t["f"]) or r.search(t["fd"]):
                    out.append((i, t))
        return out

    # ---------------------------------------------------------------- defs / origins
    def defs(self, local):
        """[(bb, kind, payload)] of every statement/terminator that (partially) assigns `local`"""
        if self._defs is None:
            d = {}
            for i in range(self.n):
                if self.blocks[i].get("cu"):
                    continue
                for s in self.blocks[i]["s"]:
                    d.setdefault(s["p"][0], []).append((i, s["k"], s))
                t = self.blocks[i]["t"]
                if t["k"] == "call":
                    d.setdefault(t["d"][0], []).append((i, "call", t))
            self._defs = d
        return self._defs.get(local, [])

    def mut_borrow_calls(self, local):
        """call terminators that receive a `&mut` borrow of `local` (the callee may write into it)"""
        if getattr(self, "_mbc", None) is None:
            refs = {}   # temp local -> set of borrowed base locals (through re-borrows and deref_mut/as_mut calls)
            changed = True
            rounds = 0
            while changed and rounds < 6:
                changed = False
                rounds += 1
                for i in range(self.n):
                    if self.blocks[i].get("cu"):
                        continue
                    for s in self.blocks[i]["s"]:
                        if s["k"] == "=" and s["rv"]["k"] == "ref" and s["rv"]["m"] and len(s["p"]) == 1:
                            base = s["rv"]["p"][0]
                            new = set(refs.get(base, ())) if ("*" in s["rv"]["p"][1:] and base in refs) else {base}
                            if "*" in s["rv"]["p"][1:] and base not in refs:
                                new = {base}
                            cur = refs.setdefault(s["p"][0], set())
                            if not new <= cur:
                                cur |= new
                                changed = True
                    t = self.blocks[i]["t"]
                    if t["k"] == "call" and t["args"] and (PASS_THROUGH.match(t["f"]) or PASS_THROUGH.match(t["fd"])):
                        a = t["args"][0]
                        if a[0] in ("m", "c") and len(a[1]) == 1 and a[1][0] in refs and len(t["d"]) == 1:
                            cur = refs.setdefault(t["d"][0], set())
                            if not refs[a[1][0]] <= cur:
                                cur |= refs[a[1][0]]
                                changed = True
            m = {}
            for i in range(self.n):
                t = self.blocks[i]["t"]
                if t["k"] == "call" and not self.blocks[i].get("cu"):
                    for a in t["args"]:
                        if a[0] in ("m", "c") and len(a[1]) == 1 and a[1][0] in refs:
                            for base in refs[a[1][0]]:
                                m.setdefault(base, []).append(t)
            self._mbc = m
        return self._mbc.get(local, [])

    def origins(self, op, max_nodes=400, deep=False):
        """flow-insensitive backward origin atoms of an operand ['c'|'m', place] / ['k', const]
        or a bare place list."""
        out = {}
        seen = set()
        work = deque()

        def push_op(o, proj=()):
            if o[0] == "k":
                c = o[1]
                a = Atom("const", c.get("def") or c.get("v", ""), None, proj, c)
                out[a.key()] = a
            else:
                push_place(o[1], proj)

        def push_place(p, proj=()):
            pr = tuple(x for x in p[1:] if x != "*") + tuple(proj)
            key = (p[0], pr)
            if key not in seen and len(seen) < max_nodes:
                seen.add(key)
                work.append((p[0], pr))

        if op and op[0] in ("c", "m", "k"):
            push_op(op)
        else:
            push_place(op)
        while work:
            local, proj = work.popleft()
            ds = self.defs(local)
            is_param = 1 <= local <= self.argc
            if is_param:
                a = Atom("param", local, None, proj)
                out[a.key()] = a
            if not ds and not is_param:
                a = Atom("unknown", f"_{local}", None, proj)
                out[a.key()] = a
            if deep:
                for t2 in self.mut_borrow_calls(local):
                    for a2 in t2["args"]:
                        push_op(a2, ())
            for bb, kind, s in ds:
                if kind == "=":
                    # a partial write `_l.f = x` only matters if it can overlap the projection we follow
                    wproj = tuple(x for x in s["p"][1:] if x != "*")
                    rest = proj
                    if wproj:
                        if proj[:len(wproj)] == wproj:
                            rest = proj[len(wproj):]
                        elif wproj[:len(proj)] == proj:
                            rest = ()
                        else:
                            continue
                    rv = s["rv"]
                    k = rv["k"]
                    if k == "use" or k == "cast" or k == "repeat":
                        push_op(rv["o"], rest)
                    elif k in ("ref", "rawptr"):
                        push_place(rv["p"], rest)
                    elif k == "agg":
                        name = rv.get("adt", rv.get("ak"))
                        if rv.get("var"):
                            name += "::" + rv["var"]
                        a = Atom("agg", name, bb, rest, rv)
                        out[a.key()] = a
                        # follow the projected field into the aggregate operand when possible
                        if rest and rv.get("fields") is not None:
                            f = rest[0]
                            fname = f[1:] if f.startswith(".") else None
                            if f.startswith("@") and len(rest) > 1 and rest[1].startswith("."):
                                fname = rest[1][1:]
                                rest2 = rest[2:]
                            else:
                                rest2 = rest[1:]
                            if fname in rv["fields"]:
                                idx = rv["fields"].index(fname)
                                if idx < len(rv["ops"]):
                                    push_op(rv["ops"][idx], rest2)
                        elif deep and not rest:
                            for o2 in rv["ops"]:
                                push_op(o2, ())
                        elif rest and rv.get("ak") == "tuple" and rest[0].startswith("."):
                            try:
                                idx = int(rest[0][1:])
                                push_op(rv["ops"][idx], rest[1:])
                            except (ValueError, IndexError):
                                pass
                    elif k == "bin":
                        a = Atom("bin", rv["op"], bb, rest, rv)
                        out[a.key()] = a
                        if deep:
                            push_op(rv["a"], ())
                            push_op(rv["b"], ())
                    elif k == "un":
                        a = Atom("un", rv["op"], bb, rest, rv)
                        out[a.key()] = a
                        if deep:
                            push_op(rv["a"], ())
                    elif k == "disc":
                        a = Atom("disc", rv["enum"], bb, rest, rv)
                        out[a.key()] = a
                    else:
                        a = Atom("other", k, bb, rest, rv)
                        out[a.key()] = a
                elif kind == "setdisc":
                    a = Atom("agg", "setdisc::" + s["v"], bb, proj)
                    out[a.key()] = a
                elif kind == "call":
                    t = s
                    a = Atom("call", t["f"], bb, proj, t)
                    out[a.key()] = a
                    if deep and t["args"]:
                        # deep = transitive data dependencies: the result may be computed from any argument
                        for a2 in t["args"]:
                            push_op(a2, ())
                    elif t["args"] and (PASS_THROUGH.match(t["f"]) or PASS_THROUGH.match(t["fd"])
                                        or (deep and DERIVED_THROUGH.match(t["f"]))):
                        # strip variant/field projections that belong to the wrapper (Continue/Break/Some/Ok…)
                        rest = tuple(x for x in proj if not x.startswith("@") and x not in (".0",))
                        push_op(t["args"][0], rest)
        return list(out.values())

    def const_value(self, op, depth=0):
        """evaluate an integer operand that is a constant or a constant expression (+,-,*,/ of constants through
        single-definition temporaries); returns int or None.  Static constant folding only."""
        if depth > 12:
            return None
        if op[0] == "k":
            v = op[1].get("v")
            try:
                return int(v)
            except (TypeError, ValueError):
                return None
        place = op[1]
        proj = [x for x in place[1:] if x != "*"]
        ds = [d for d in self.defs(place[0])]
        if len(ds) != 1 or ds[0][1] != "=" or len(ds[0][2]["p"]) != 1:
            return None
        rv = ds[0][2]["rv"]
        if rv["k"] in ("use", "cast") and not proj:
            return self.const_value(rv["o"], depth + 1)
        if rv["k"] == "bin" and (not proj or proj == [".0"]):
            a = self.const_value(rv["a"], depth + 1)
            b = self.const_value(rv["b"], depth + 1)
            if a is None or b is None:
                return None
            op_ = rv["op"].replace("WithOverflow", "").replace("Unchecked", "")
            try:
                return {"Add": a + b, "Sub": a - b, "Mul": a * b, "Div": a // b if b else None, "Rem": a % b if b else None,
                        "Shl": a << b, "Shr": a >> b, "BitAnd": a & b, "BitOr": a | b}.get(op_)
            except Exception:
                return None
        return None

    def origin_calls(self, op):
        return [a for a in self.origins(op) if a.kind == "call"]

    # ---------------------------------------------------------------- switches
    def switch_info(self, bb):
        """Describe what a SwitchInt block tests.
        bool switch  -> {'kind':'bool','true':bb,'false':bb,'atoms':[...],'neg':bool}
        enum switch  -> {'kind':'enum','enum':name,'edges':{variant:bb},'otherwise':bb|None,'atoms':[...origins of the matched place]}
        int switch   -> {'kind':'int','edges':{value:bb},'otherwise':bb,'atoms':[...]}
        """
        t = self.blocks[bb]["t"]
        if t["k"] != "switch":
            return None
        o = t["o"]
        if t["ty"] == "bool":
            tru, fal = t["ow"], None
            for v, b in t["ts"]:
                if v == "0":
                    fal = b
                else:
                    tru = b
            neg, cur = self.peel_not(o)
            atoms = self.origins(cur)
            if neg:
                tru, fal = fal, tru
            return {"kind": "bool", "true": tru, "false": fal, "atoms": atoms, "neg": neg, "op": cur}
        # discriminant?
        if o[0] != "k":
            ds = self.defs(o[1][0])
            if len(ds) == 1 and ds[0][1] == "=" and ds[0][2]["rv"]["k"] == "disc":
                rv = ds[0][2]["rv"]
                en = rv["enum"]
                vmap = self.F.enums.get(en, {})
                edges = {}
                for v, b in t["ts"]:
                    edges[vmap.get(int(v), v)] = b
                ow = t["ow"]
                if self.blocks[ow]["t"]["k"] == "unreach" and not self.blocks[ow]["s"]:
                    ow = None
                return {"kind": "enum", "enum": en, "edges": edges, "otherwise": ow,
                        "atoms": self.origins(rv["p"]), "place": rv["p"]}
        edges = {v: b for v, b in t["ts"]}
        return {"kind": "int", "edges": edges, "otherwise": t["ow"], "atoms": self.origins(o)}

    def peel_not(self, o):
        """strip `!` and plain copies from a bool operand -> (negated?, inner operand)"""
        neg = False
        cur = o
        for _ in range(12):
            if cur[0] == "k":
                break
            ds = [d for d in self.defs(cur[1][0]) if len(cur[1]) == 1]
            if len(ds) == 1 and ds[0][1] == "=":
                rv = ds[0][2]["rv"]
                if rv["k"] == "un" and rv["op"] == "Not":
                    neg = not neg
                    cur = rv["a"]
                    continue
                if rv["k"] == "use":
                    cur = rv["o"]
                    continue
            break
        return neg, cur

    def switches(self):
        """switch blocks that are reachable from the entry block (literal-condition edges pruned) and are not cleanup"""
        if getattr(self, "_live", None) is None:
            self._live = self.reach((0,))
        return [i for i in range(self.n) if self.blocks[i]["t"]["k"] == "switch" and not self.blocks[i].get("cu") and i in self._live]

    # ---------------------------------------------------------------- guards
    def bool_guards(self, pred):
        """switch blocks on a bool whose origin atoms satisfy pred(atom) -> [(bb, true_succ, false_succ, info)]"""
        out = []
        for bb in self.switches():
            si = self.switch_info(bb)
            if si and si["kind"] == "bool" and any(pred(a) for a in si["atoms"]):
                out.append((bb, si["true"], si["false"], si))
        return out

    def call_bool_guards(self, callee_pattern):
        r = re.compile(callee_pattern)
        return self.bool_guards(lambda a: a.kind == "call" and (r.search(a.what) or r.search(a.extra["fd"])))

    def enum_guards(self, enum_pattern, origin_pred=None):
        """[(bb, edges{variant:succ}, otherwise, info)] for switches on the discriminant of a matching enum"""
        r = re.compile(enum_pattern)
        out = []
        for bb in self.switches():
            si = self.switch_info(bb)
            if si and si["kind"] == "enum" and r.search(si["enum"]):
                if origin_pred is None or any(origin_pred(a) for a in si["atoms"]):
                    out.append((bb, si["edges"], si["otherwise"], si))
                    out.extend(self._matches_then_branch(bb, si))
        return out

    def _matches_then_branch(self, ebb, esi):
        """`if matches!(x, E::V) {..}` / `if !matches!(..)`: the enum switch at ebb only assigns a bool temp in each arm, the arms join, and a
        later bool switch branches on that temp.  Returns the synthesised enum guard located at that bool switch: variant -> its successor."""
        arms = dict(esi["edges"])
        ow = esi["otherwise"]
        vals = {}          # arm block -> (local, bool literal)
        for blk in set(list(arms.values()) + ([ow] if ow is not None else [])):
            st = [s for s in self.blocks[blk]["s"] if s["k"] == "="]
            if len(st) != 1 or st[0]["rv"]["k"] != "use" or st[0]["rv"]["o"][0] != "k" or len(st[0]["p"]) != 1:
                return []
            v = str(st[0]["rv"]["o"][1].get("v"))
            if st[0]["rv"]["o"][1].get("ty") != "bool" or v not in ("0", "1", "true", "false"):
                return []
            if self.blocks[blk]["t"]["k"] != "goto":
                return []
            vals[blk] = (st[0]["p"][0], v in ("1", "true"))
        locs = {l for l, _ in vals.values()}
        if len(locs) != 1:
            return []
        loc = next(iter(locs))
        out = []
        for sb in self.switches():
            si = self.switch_info(sb)
            if not si or si["kind"] != "bool":
                continue
            neg, cur = self.peel_not(self.blocks[sb]["t"]["o"])
            if cur[0] == "k" or cur[1] != [loc]:
                continue
            # si["true"]/["false"] are already expressed for the peeled (un-negated) operand
            edges = {v: (si["true"] if vals[blk][1] else si["false"]) for v, blk in arms.items()}
            o2 = (si["true"] if vals[ow][1] else si["false"]) if ow is not None else None
            out.append((sb, edges, o2, dict(esi, via_matches=ebb)))
        return out

    def try_guards(self, callee_pattern):
        """`callee(..)?` and `match callee(..) {Ok/Some..}` sites.
        -> [(switch_bb, pass_succs[list], fail_succs[list], call_bb)]"""
        r = re.compile(callee_pattern)
        out = []
        for bb in self.switches():
            si = self.switch_info(bb)
            if not si or si["kind"] != "enum":
                continue
            en = si["enum"]
            if en not in ("core::ops::control_flow::ControlFlow", "core::result::Result", "core::option::Option"):
                continue
            hits = [a for a in si["atoms"] if a.kind == "call" and (r.search(a.what) or r.search(a.extra["fd"]))]
            if not hits:
                continue
            passv = {"core::ops::control_flow::ControlFlow": "Continue", "core::result::Result": "Ok",
                     "core::option::Option": "Some"}[en]
            ps, fs = [], []
            for v, b in si["edges"].items():
                (ps if v == passv else fs).append(b)
            if si["otherwise"] is not None:
                # `otherwise` stands for the variants not listed
                listed = set(si["edges"])
                (fs if passv in listed else ps).append(si["otherwise"])
            out.append((bb, ps, fs, hits[0].bb))
        return out

    # ---------------------------------------------------------------- rule helpers
    def unreachable_without(self, targets, pass_edges, start=0):
        """T2: with the guards' pass edges removed, no target block may be reachable from `start`.
        returns (ok, witness_path)"""
        r = self.reach((start,), blocked_edges=pass_edges)
        for t in targets:
            if t in r:
                return False, self.path(start, t, blocked_edges=pass_edges)
        return True, None

    def fmt_path(self, path):
        if not path:
            return ""
        ls = []
        for b in path:
            ln = self.line(b)
            if not ls or ls[-1] != ln:
                ls.append(ln)
        return "bb" + "->".join(str(b) for b in path[:1] + path[-1:]) + " lines " + ",".join(str(x) for x in ls[:25])

    # success / failure exits -------------------------------------------------
    def ret_assignments(self):
        """[(bb, kind)] for each assignment of the return place _0:
        kind = 'Ok' | 'Err' | 'Some' | 'None' | 'residual' | 'call:<callee>' | 'value'"""
        out = []
        for bb, kind, s in self.defs(0):
            if kind == "=":
                if len(s["p"]) > 1:
                    continue
                rv = s["rv"]
                if rv["k"] == "agg" and rv.get("adt") in ("core::result::Result", "core::option::Option"):
                    out.append((bb, rv["var"]))
                else:
                    out.append((bb, "value"))
            elif kind == "call":
                if FROM_RESIDUAL.search(s["f"]) or FROM_RESIDUAL.search(s["fd"]):
                    out.append((bb, "residual"))
                else:
                    out.append((bb, "call:" + s["f"]))
        return out

    def ok_exits(self):
        """blocks that assign a non-error value to the return place"""
        return [bb for bb, k in self.ret_assignments() if k not in ("Err", "residual", "None")]

    def diverging(self):
        """blocks ending in a call that never returns (panic etc.)"""
        return [i for i in range(self.n) if self.blocks[i]["t"]["k"] == "call" and self.blocks[i]["t"]["t"] is None
                and not self.blocks[i].get("cu")]


def bodies_of(F, root):
    """Body objects of an item and its closures"""
    return [Body(F, n) for n in sorted(F.by_root().get(root, []))]


def body_with_call(F, root, pattern):
    """the body (item or one of its closures) that contains a call matching pattern"""
    hits = []
    for b in bodies_of(F, root):
        if b.calls(pattern):
            hits.append(b)
    return hits
