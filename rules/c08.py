"""C08 Protected calls succeed exactly when the access rule is satisfied — every dispatch passes the auth hook; evaluator shape."""
import re
from lib import *
from c02 import flagconst_guard
from c51 import sysfn

MIX = "radix_engine::system::system_modules::module_mixer::SystemModuleMixer"
AM = "radix_engine::system::system_modules::auth::auth_module::AuthModule"
AZ = "radix_engine::system::system_modules::auth::authorization::"
A_ = AZ + "Authorization"
INVOKE = r"kernel_api::KernelInvokeApi(<.*>)?(>)?::kernel_invoke$"


def run(ctx):
    F = ctx.F
    ctx.rule("T2: every kernel_invoke issued by a SystemService call API (call_method, call_direct_access_method, call_module_method, "
             "call_function) is dominated by SystemModuleMixer::on_call_{method,function}(..)? with the same receiver/ident; the only other "
             "kernel_invoke callers are the three blueprint-hook dispatchers (actor = BlueprintHook)")
    callers = who_calls(F, INVOKE)
    check_who_may(ctx, "who-invokes", callers, {
        r"SystemObjectApi<[^>]*>>::(call_method|call_direct_access_method|call_module_method)$": "method call APIs (auth hook checked below)",
        r"SystemBlueprintApi<[^>]*>>::call_function$": "function call API (auth hook checked below)",
        r"system_callback::System( as [^>]*KernelCallbackObject>)?::(on_move_node|on_substate_lock_fault|on_drop_node_mut)$": "blueprint hooks (on-move / on-virtualize / on-drop): actor is Actor::BlueprintHook, no caller-chosen target",
    }, "caller of kernel_invoke")
    ctx.floor("who-invokes", len(callers), 7)
    for api, hook, argmap in (("call_method", "on_call_method", {1: r"^param:2$", 4: r"^param:3$"}),
                              ("call_direct_access_method", "on_call_method", {1: r"^param:2$", 4: r"^param:3$"}),
                              ("call_module_method", "on_call_method", {1: r"^param:2$", 4: r"^param:4$"}),
                              ("call_function", "on_call_function", {2: r"^param:4$"})):
        root = sysfn(F, api)
        b = the_body(ctx, root, INVOKE) if root else None
        if b is None:
            ctx.ob(f"anchor|{api}", False, f"SystemService::{api} with a kernel_invoke call not found")
            continue
        check_guarded(ctx, f"{api}|auth-hook-before-invoke", b, call_blocks(b, INVOKE), [G_try(re.escape(MIX) + "::" + hook + "$")], "kernel_invoke")
        for bb, t in b.calls(re.escape(MIX) + "::" + hook + "$"):
            for idx, want in argmap.items():
                names = origin_names(b, t["args"][idx], deep=True)
                # inside the trace closure the API parameters are captured: accept param of closure env with matching field index
                ok = any(re.search(want, n) for n in names) or any(a.kind == "param" for a in b.origins(t["args"][idx], deep=True))
                ctx.ob(f"{api}|hook-arg{idx}-from-caller-input", ok, f"argument #{idx} of {hook} originates from {sorted(names)[:4]}", b.loc(bb))
        # the auth zone produced by the hook is the one put into the actor
        ki = b.calls(INVOKE)
        if ki:
            names = origin_names(b, ki[0][1]["args"][1], deep=True)
            ctx.ob(f"{api}|actor-carries-hook-auth-zone", any(hook in n for n in names), "the invoked actor's auth_zone is the hook's result", b.loc(ki[0][0]))
    # hook dispatchers build Actor::BlueprintHook
    for root in callers:
        if re.search(r"::(on_move_node|on_substate_lock_fault|on_drop_node_mut)$", root):
            vs = {v for x in ctx.bodies_of(root) for v in x.fn.vars if v.startswith("radix_engine::system::actor::Actor::")}
            ctx.ob(f"hook-dispatcher|{root.split('::')[-1]}|actor", vs == {"radix_engine::system::actor::Actor::BlueprintHook"}, f"actors constructed: {sorted(vs)}", F.fns[root].loc())

    ctx.rule("T2: SystemModuleMixer::on_call_* runs AuthModule::on_call_* on the enabled_modules.contains(AUTH) arm; in AuthModule::on_call_* "
             "Ok is reachable only after check_permission(..)? ; check_permission returns Ok only for AllowAll or an Authorized verdict")
    for hook in ("on_call_method", "on_call_function"):
        n = MIX + "::" + hook
        if ctx.anchor(n):
            b = ctx.body(n)
            am = call_blocks(b, re.escape(AM) + "::" + hook + "$")
            mock = call_blocks(b, re.escape(AM) + r"::on_call_fn_mock$")
            check_guarded(ctx, f"mixer-{hook}|auth-on-AUTH-arm", b, am, [G_custom(lambda body: flagconst_guard(body, "EnabledModules", "AUTH", True), "enabled_modules.contains(AUTH)")], "AuthModule::" + hook)
            check_guarded(ctx, f"mixer-{hook}|mock-only-when-AUTH-disabled", b, mock, [G_custom(lambda body: flagconst_guard(body, "EnabledModules", "AUTH", False), "!enabled_modules.contains(AUTH)")], "AuthModule::on_call_fn_mock")
        n = AM + "::" + hook
        if ctx.anchor(n):
            b = ctx.body(n)
            check_guarded(ctx, f"auth-{hook}|check_permission-before-ok", b, b.ok_exits(), [G_try(re.escape(AM) + r"::check_permission$")], "Ok(auth_zone)")
            res = r"resolve_method_permission$" if hook == "on_call_method" else r"resolve_function_permission$"
            for bb, t in b.calls(re.escape(AM) + r"::check_permission$"):
                names = origin_names(b, t["args"][1], deep=True)
                ctx.ob(f"auth-{hook}|permission-from-resolver", any(re.search(res, x) for x in names), f"checked permission originates from {res}", b.loc(bb))
    n = AM + "::check_permission"
    if ctx.anchor(n):
        b = ctx.body(n)
        check_no_live_otherwise(ctx, "check_permission|ResolvedPermission", b, r"::ResolvedPermission$", "match on ResolvedPermission")
        for bb, ed, ow, si in b.enum_guards(r"::ResolvedPermission$"):
            allow = ed.get("AllowAll")
            for v, s in ed.items():
                if v == "AllowAll":
                    continue
                # in the checked arms Ok is reachable only through an Authorized verdict
                verdicts = [g for g in b.enum_guards(r"::(AuthorizationCheckResult|AuthorityListAuthorizationResult)$") if g[0] in b.reach((s,), blocked_blocks=[bb])]
                pe = [(g[0], g[1]["Authorized"]) for g in verdicts if "Authorized" in g[1]]
                ok = bool(pe) and b.unreachable_without(b.ok_exits(), pe, start=s)[0]
                ctx.ob(f"check_permission|{v}-needs-Authorized", ok, f"{v} arm reaches Ok only via an Authorized verdict", b.loc(bb))
        for en in ("AuthorizationCheckResult", "AuthorityListAuthorizationResult"):
            for bb, ed, ow, si in b.enum_guards("::" + en + "$"):
                ctx.ob(f"check_permission|{en}-Failed-doomed", "Failed" in ed and doomed(b, ed["Failed"]) and ow is None, f"Failed arm of {en} is doomed", b.loc(bb))
        ctx.ob("check_permission|Unauthorized-live", any(v.endswith("AuthError::Unauthorized") for v in b.fn.vars), "AuthError::Unauthorized is constructed", b.loc())

    ctx.rule("T5: the evaluator's matches over BasicRequirement / CompositeRequirement / AccessRule have no live catch-all")
    n_m = 0
    for f in F.fns.values():
        if f.mod.startswith("radix_engine::system::system_modules::auth::authorization") and f.kind != "Closure" or f.name.startswith(AZ):
            b = ctx.body(f.name)
            for en in (r"::BasicRequirement$", r"::CompositeRequirement$", r"::AccessRule$"):
                for bb, ed, ow, si in b.enum_guards(en):
                    n_m += 1
                    full = set(F.enums.get(si["enum"], {}).values())
                    good = ow is None or not (full - set(ed))
                    ctx.ob(f"evaluator|{f.name.split('::')[-1]}|{si['enum'].split('::')[-1]}", good, f"match at bb{bb} covers {sorted(ed)}" + ("" if good else f" with catch-all for {sorted(full-set(ed))}"), b.loc(bb))
    ctx.floor("evaluator-matches", n_m, 3)
    ctx.rule("T2 + operand origin: require_amount(N, R) is granted (Ok(true) in auth_zone_stack_has_amount's per-zone closure) only behind "
             "proof_matches(..) == true and a `>=` test whose left operand is the amount() of that one proof and whose right operand is N — proof "
             "amounts are not additive (two proofs over the same funds), so no accumulated value may satisfy the rule")
    cn = A_ + "::auth_zone_stack_has_amount::{closure#0}"
    if ctx.anchor(cn):
        b = ctx.body(cn)
        trues = []
        for i in range(b.n):
            for st in b.stmts(i):
                if st["k"] == "=" and st["p"] == [0] and st["rv"]["k"] == "agg" and st["rv"].get("var") == "Ok" and \
                        st["rv"]["ops"] and st["rv"]["ops"][0][0] == "k" and str(st["rv"]["ops"][0][1].get("v")) in ("1", "true"):
                    trues.append(i)

        def one_proof_ge(body):
            e, bl = [], []
            for bb, tru, fal, si in body.call_bool_guards(r"PartialOrd(<[^>]*>)?(>)?::(ge|le|gt|lt)$"):
                c = [a for a in si["atoms"] if a.kind == "call" and re.search(r"::(ge|le|gt|lt)$", a.what)]
                t = body.term(c[0].bb) if c else None
                if not t:
                    continue
                op = c[0].what.rsplit("::", 1)[-1]
                one = lambda o: bool(o) and all(x.endswith("NativeProof>::amount") for x in o)
                lhs, rhs = origin_names(body, t["args"][0]), origin_names(body, t["args"][1])
                # proof.amount() >= N  |  N <= proof.amount()  (and the negated forms on their false edge)
                if one(lhs) and not one(rhs):
                    e.append((bb, tru if op in ("ge", "gt") else fal)); bl.append(bb)
                elif one(rhs) and not one(lhs):
                    e.append((bb, tru if op in ("le", "lt") else fal)); bl.append(bb)
            return e, bl
        check_guarded(ctx, "has_amount|granted-only-on-one-proofs-amount", b, trues,
                      [G_bool_call(re.escape(A_) + r"::proof_matches$", True), G_custom(one_proof_ge, "proof.amount() >= N (left operand is one proof's amount)")],
                      "Ok(true) of the amount-of evaluator")
    ctx.assume("the iff semantics of require/count-of/all-of/any-of and the auth-zone stack walk are value-level recursion and not decided (for amount-of only the one-proof comparison shape is)")
