"""C20 SBOR values round-trip and have a unique encoding — kind<->byte table agreement, size-limit agreement, prefix/end/UTF-8 checks."""
import re
from lib import *

KINDS = [  # (label, enum path, as_u8 fn, from_u8 fn)
    ("ValueKind", "sbor::value_kind::ValueKind", "sbor::value_kind::ValueKind::as_u8", "sbor::value_kind::ValueKind::from_u8"),
    ("ScryptoCustomValueKind", "radix_common::data::scrypto::custom_value_kind::ScryptoCustomValueKind",
     "<radix_common::data::scrypto::custom_value_kind::ScryptoCustomValueKind as sbor::value_kind::CustomValueKind>::as_u8",
     "<radix_common::data::scrypto::custom_value_kind::ScryptoCustomValueKind as sbor::value_kind::CustomValueKind>::from_u8"),
    ("ManifestCustomValueKind", "radix_common::data::manifest::custom_value_kind::ManifestCustomValueKind",
     "<radix_common::data::manifest::custom_value_kind::ManifestCustomValueKind as sbor::value_kind::CustomValueKind>::as_u8",
     "<radix_common::data::manifest::custom_value_kind::ManifestCustomValueKind as sbor::value_kind::CustomValueKind>::from_u8"),
]


def as_table(b, enum):
    """variant -> byte from `match self { V => CONST }`"""
    out = {}
    for bb, ed, ow, si in b.enum_guards(re.escape(enum) + "$"):
        for v, s in ed.items():
            # first assignment of a constant to _0 reachable in the arm
            for blk in sorted(b.reach((s,), blocked_blocks=[bb])):
                hit = None
                for st in b.stmts(blk):
                    if st["k"] == "=" and st["p"] == [0] and st["rv"]["k"] == "use" and st["rv"]["o"][0] == "k":
                        hit = b.const_value(st["rv"]["o"])
                if hit is not None:
                    out.setdefault(v, set()).add(hit)
                    break
        return out, ow
    return out, None


def from_table(b, enum):
    """byte -> variant from `match id { CONST => Some(V) }`"""
    out = {}
    for sb in b.switches():
        si = b.switch_info(sb)
        if si["kind"] != "int" or not any(a.kind == "param" for a in si["atoms"]):
            continue
        for val, s in si["edges"].items():
            vs = set()
            for st in b.stmts(s):
                if st["k"] == "=" and st["rv"]["k"] == "agg" and st["rv"].get("adt") == enum:
                    vs.add(st["rv"]["var"])
            out[int(val)] = vs
        return out, si["otherwise"]
    return out, None


def run(ctx):
    F = ctx.F
    ctx.rule("T8: for ValueKind, ScryptoCustomValueKind and ManifestCustomValueKind the variant->byte table of as_u8 and the byte->variant "
             "table of from_u8 are mutually inverse and injective; custom kinds live at ids >= CUSTOM_VALUE_KIND_START, basic kinds below")
    start = F.consts.get("sbor::constants::CUSTOM_VALUE_KIND_START")
    ctx.ob("custom-kind-start|known", start is not None, f"CUSTOM_VALUE_KIND_START = {start}")
    tables = {}
    for label, enum, fa, ff in KINDS:
        if not (ctx.anchor(fa) and ctx.anchor(ff)):
            continue
        ba, bf = ctx.body(fa), ctx.body(ff)
        at, aow = as_table(ba, enum)
        ft, fow = from_table(bf, enum)
        variants = set(F.enums.get(enum, {}).values()) - {"Custom"}
        ctx.ob(f"{label}|as_u8-covers-all-variants", set(at) >= variants and all(len(v) == 1 for v in at.values()), f"as_u8 maps {len(at)} variant(s); enum has {len(variants)} non-custom variant(s)", ba.loc())
        a1 = {v: next(iter(s)) for v, s in at.items() if len(s) == 1 and v != "Custom"}
        f1 = {k: next(iter(s)) for k, s in ft.items() if len(s) == 1}
        ctx.ob(f"{label}|injective", len(set(a1.values())) == len(a1), f"byte ids: {sorted(a1.values())}", ba.loc())
        inv = all(f1.get(b_) == v for v, b_ in a1.items()) and all(a1.get(v) == b_ for b_, v in f1.items())
        ctx.ob(f"{label}|mutually-inverse", bool(a1) and inv, f"as_u8: {sorted(a1.items(), key=lambda x: x[1])}  from_u8: {sorted(f1.items())}", bf.loc())
        tables[label] = a1
        ctx.sample({"kind": label, "table": sorted(a1.items(), key=lambda x: x[1])})
        if start is not None:
            if label == "ValueKind":
                ctx.ob(f"{label}|below-custom-range", all(v < start for v in a1.values()), f"basic ids all < {start}", ba.loc())
            else:
                ctx.ob(f"{label}|in-custom-range", all(v >= start for v in a1.values()), f"custom ids all >= {start}", ba.loc())
    # from_u8 of ValueKind delegates the custom range to X::from_u8 behind `id >= CUSTOM_VALUE_KIND_START`
    bf = ctx.body(KINDS[0][3])
    if bf:
        cu = call_blocks(bf, r"CustomValueKind::from_u8$")
        check_guarded(ctx, "ValueKind|custom-range-guard", bf, cu, [G_bin("Ge", [r"^param:1$"], [r"CUSTOM_VALUE_KIND_START"], "id >= CUSTOM_VALUE_KIND_START", True)], "X::from_u8(id)")

    ctx.rule("T9: the encoder's size limit equals the decoder's 4x7-bit bound (2^shift_limit - 1), and a non-canonical trailing zero group is rejected")
    we, rd = "sbor::encoder::Encoder::write_size", "sbor::decoder::Decoder::read_size"
    if ctx.anchor(we) and ctx.anchor(rd):
        bw, br = ctx.body(we), ctx.body(rd)
        lim = None
        for sb in bw.switches():
            si = bw.switch_info(sb)
            if si["kind"] == "bool":
                for a in si["atoms"]:
                    if a.kind == "bin" and a.what == "Gt" and doomed(bw, si["true"]):
                        lim = bw.const_value(a.extra["b"])
        shift_lim, step = None, None
        for sb in br.switches():
            si = br.switch_info(sb)
            if si["kind"] == "bool":
                for a in si["atoms"]:
                    if a.kind == "bin" and a.what == "Ge" and doomed(br, si["true"]):
                        v = br.const_value(a.extra["b"])
                        from_byte = any(x.kind == "call" and x.what.endswith("::read_byte") for x in br.origins(a.extra["a"]))
                        if v is not None and not from_byte and v % 7 == 0:      # `shift >= 28`, not `byte >= 0x80`
                            shift_lim = v
        for i in range(br.n):
            for s in br.stmts(i):
                if s["k"] == "=" and s["rv"]["k"] == "bin" and s["rv"]["op"].startswith("Add") and s["rv"]["b"][0] == "k":
                    v = br.const_value(s["rv"]["b"])
                    if v and v > 1:
                        step = v
        form = "loop"
        if shift_lim is None:
            # unrolled form: the 7-bit groups are placed with constant shift amounts (array literals feeding the shift, or `<< K` literals)
            ks = set()
            for i in range(br.n):
                for s_ in br.stmts(i):
                    if s_["k"] != "=":
                        continue
                    rv = s_["rv"]
                    if rv["k"] == "agg" and rv.get("ak") == "array":
                        vs = [br.const_value(o) for o in rv["ops"]]
                        if vs and all(v is not None for v in vs):
                            ks |= set(vs)
                    if rv["k"] == "bin" and rv["op"].startswith("Shl") and rv["b"][0] == "k":
                        v = br.const_value(rv["b"])
                        if v is not None:
                            ks.add(v)
            if ks and all(k % 7 == 0 for k in ks) and ks == set(range(0, max(ks) + 7, 7)):
                shift_lim, step, form = max(ks) + 7, 7, "unrolled"
        ok = lim is not None and shift_lim is not None and step == 7 and shift_lim % 7 == 0 and lim == (1 << shift_lim) - 1
        ctx.ob("size|encoder-limit-equals-decoder-bound", ok, f"write_size rejects above {lim}; read_size ({form} form) places 7-bit groups below bit {shift_lim} (max {(1 << shift_lim) - 1 if shift_lim else None})", bw.loc())
        inv = agg_blocks(br, r"sbor::decoder::DecodeError$", "InvalidSize")
        ctx.ob("size|invalid-size-rejections", len(inv) >= 2 and all(doomed(br, s) for s in inv), f"{len(inv)} InvalidSize site(s) (too many groups; trailing zero group), all doomed", br.loc())
        zero = [sb for sb in br.switches() if any(a.kind == "bin" and a.what in ("Eq", "Ne") and 0 in (br.const_value(a.extra["a"]), br.const_value(a.extra["b"])) for a in br.switch_info(sb)["atoms"])]
        ctx.ob("size|trailing-zero-test-present", len(zero) >= 2, f"comparisons with 0 at bb{zero} (byte == 0 && shift != 0)", br.loc())
        # shape-independent form of the canonical-length rule: after *every* read_byte site, Ok(size) is reachable (without reading another
        # byte) only through "this byte != 0" or "this is the first group (position == 0)"
        reads = call_blocks(br, r"Decoder(<[^>]*>)?(>)?::read_byte$")
        oks = set(br.ok_exits())
        pass_e = []
        for sb in br.switches():
            si = br.switch_info(sb)
            if si["kind"] != "bool":
                continue
            for a in si["atoms"]:
                if a.kind == "bin" and a.what in ("Eq", "Ne"):
                    va, vb = br.const_value(a.extra["a"]), br.const_value(a.extra["b"])
                    if 0 not in (va, vb):
                        continue
                    other = a.extra["b"] if va == 0 else a.extra["a"]
                    from_byte = any(x.kind == "call" and x.what.endswith("::read_byte") for x in br.origins(other))
                    is_zero_edge = si["true"] if a.what == "Eq" else si["false"]
                    non_zero_edge = si["false"] if a.what == "Eq" else si["true"]
                    pass_e.append((sb, non_zero_edge if from_byte else is_zero_edge))
        ctx.ob("size|read-sites", len(reads) >= 1 and bool(oks), f"{len(reads)} read_byte site(s), {len(oks)} Ok exit(s) in read_size", br.loc())
        for r in reads:
            region = br.reach(tuple(br.succs(r)), blocked_edges=pass_e, blocked_blocks=reads)
            bad = region & oks
            ctx.ob(f"size|canonical-last-group|read@{reads.index(r)}", not bad,
                   "after this read_byte, Ok(size) is reachable only through `byte != 0` or `first group`" if not bad else
                   "after this read_byte, Ok(size) is reachable WITHOUT the trailing-zero-group test: a padded length prefix would be accepted", br.loc(r))

    ctx.rule("T2: decode_payload passes read_and_check_payload_prefix and check_end on the way to Ok; the prefix mismatch arm is doomed; string "
             "decoding goes through a checked UTF-8 conversion; no *_unchecked UTF-8/slice access on decode paths (T1)")
    n = "sbor::decoder::Decoder::decode_payload"
    if ctx.anchor(n):
        b = ctx.body(n)
        check_guarded(ctx, "decode_payload|prefix-and-end", b, b.ok_exits(), [G_try(r"Decoder::read_and_check_payload_prefix$"), G_try(r"Decoder::check_end$"), G_try(r"Decoder::decode$")], "Ok(value)")
    n = "sbor::decoder::Decoder::read_and_check_payload_prefix"
    if ctx.anchor(n):
        b = ctx.body(n)
        g = [sb for sb in b.switches() if any(a.kind == "bin" and a.what in ("Ne", "Eq") for a in b.switch_info(sb)["atoms"])]
        ok = bool(g) and all(any(doomed(b, s) for s in b.succs(x)) for x in g)
        ctx.ob("payload-prefix|mismatch-doomed", ok, "the prefix comparison has a rejecting arm", b.loc())
    n = "<sbor::decoder::VecDecoder as sbor::decoder::Decoder>::check_end"
    cand = [x for x in F.fns if x.endswith("Decoder>::check_end") and "VecDecoder" in x]
    for c in cand:
        b = ctx.body(c)
        ctx.ob("check_end|trailing-bytes-rejected", any(v.endswith("DecodeError::ExtraTrailingBytes") for v in b.fn.vars) and all(doomed(b, s) for s in agg_blocks(b, r"DecodeError$", "ExtraTrailingBytes")),
               "ExtraTrailingBytes is constructed on a doomed arm", b.loc())
    unchecked = {}
    for f in F.fns.values():
        if f.crate == "sbor" and re.search(r"sbor::(decoder|codec|value|traversal|payload_validation)", f.mod) and not re.search(r"sbor::encode::Encode", f.name):
            for c in f.calls:
                if re.search(r"from_utf8_unchecked|::get_unchecked(_mut)?$|from_raw_parts", c[0]) and not c[3]:
                    unchecked.setdefault(f.name, []).append(c[0])
    ctx.ob("decode-paths|no-unchecked-access", not unchecked, f"unchecked UTF-8/slice accesses on decode paths: {unchecked or 'none'}")
    sd = [x for x in F.fns if re.search(r"<alloc::string::String as sbor::decode::Decode(<.*>)?>::decode_body_with_value_kind$", x)]
    for s in sd[:1]:
        b = ctx.body(s)
        ctx.ob("string-decode|checked-utf8", bool(b.calls(r"String::from_utf8$|str::from_utf8$|core::str::converts::from_utf8$")) and
               any(v.endswith("DecodeError::InvalidUtf8") for x in ctx.bodies_of(s) for v in x.fn.vars), "String decoding uses a checked from_utf8 and can reject InvalidUtf8", b.loc())
    if not sd:
        ctx.ob("string-decode|anchor", False, "Decode for String not found")
    ctx.assume("round-trip equality and uniqueness as value-level facts, and custom value validity, are not decided")
