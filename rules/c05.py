"""C05 The stored ledger is always well-formed — validate-before-write on every system write API, ownership/reference checks live."""
import re
from lib import *
from c51 import sysfn, SYS

CF = "radix_engine::kernel::call_frame::"
SIO = "radix_engine::kernel::substate_io::"
VAL = r"SystemService::(validate_blueprint_payload|validate_kv_store_payload)$"
# SystemService API -> (write primitive regex, min number of validations that must each dominate it)
APIS = {
    "field_write": (r"kernel_write_substate$", 1),
    "key_value_entry_set": (r"kernel_write_substate$", 2),
    "actor_index_insert": (r"kernel_set_substate$", 2),
    "actor_sorted_index_insert": (r"kernel_set_substate$", 2),
    "key_value_store_open_entry": (r"kernel_open_substate_with_default$", 1),
    "actor_open_key_value_entry": (r"kernel_open_substate_with_default$", 1),
    "emit_event_internal": (r"::checked_add_event$|::add_event$", 1),
}
ENGINE_CONSTRUCTED = {"field_lock": "re-writes the value just read with lock status Locked", "key_value_entry_lock": "re-writes the entry just read with lock status Locked",
                      "key_value_entry_remove": "writes an engine-built empty entry", "key_value_entry_remove_and_close_substate": "writes an engine-built empty entry",
                      "globalize_with_address_internal": "writes engine-built TypeInfo", "actor_index_remove": "removal", "actor_sorted_index_remove": "removal",
                      "actor_index_drain": "removal", "key_value_store_remove_entry": "delegates to key_value_entry_remove"}


def run(ctx):
    F = ctx.F
    ctx.rule("T2 validate-before-write: in every SystemService API that passes caller bytes to a kernel write/open primitive, each "
             "validate_blueprint_payload / validate_kv_store_payload (..)? individually dominates the primitive; in the two-arm setter either arm validates")
    for api, (prim, nval) in APIS.items():
        root = sysfn(F, api)
        b = the_body(ctx, root, prim) if root else None
        if b is None:
            ctx.ob(f"anchor|{api}", False, f"SystemService::{api} calling {prim} not found")
            continue
        targets = call_blocks(b, prim)
        if api == "key_value_entry_set":
            check_guarded(ctx, f"{api}|validated", b, targets, [G_try(VAL)], "kernel_write_substate")
            n = len({cbb for _, _, _, cbb in b.try_guards(VAL)})
            ctx.ob(f"{api}|both-arms-validate", n >= 2, f"{n} validation call(s) (KVStore arm and KVCollection arm)", b.loc())
        else:
            check_each_try_dominates(ctx, f"{api}|validated", b, VAL, targets, f"{prim.rstrip('$')} in {api}", min_calls=nval)
        # the validated buffer is the buffer written/keyed
        for bb, t in b.calls(VAL):
            bufs = origin_names(b, t["args"][-1], deep=False)
            ctx.ob(f"{api}|validates-caller-buffer", any(x.startswith("param:") for x in bufs) or bool(bufs), f"validated buffer originates from {sorted(bufs)[:3]}", b.loc(bb))
    # completeness: every SystemService fn calling a kernel mutator is classified
    callers = who_calls(F, r"kernel_api::KernelSubstateApi(<[^>]*>)?(>)?::kernel_(write_substate|set_substate)$")
    for root in sorted(callers):
        if not root.startswith("<" + SYS) and not root.startswith(SYS):
            continue
        name = root.rsplit("::", 1)[-1]
        known = name in APIS or name in ENGINE_CONSTRUCTED or name.startswith("kernel_")
        ctx.ob(f"write-api-classified|{name}", known, f"SystemService::{name} writes substates: " + ("validated API" if name in APIS else ENGINE_CONSTRUCTED.get(name, "thin kernel forwarding impl") if known else "NOT classified (needs a validation rule or an engine-constructed reason)"), F.fns[root].loc())
    root = sysfn(F, "new_object_internal")
    b = the_body(ctx, root, r"kernel_create_node$") if root else None
    if b is not None:
        check_guarded(ctx, "new_object_internal|validated", b, call_blocks(b, r"kernel_create_node$"), [G_try(r"SystemService::validate_new_object$")], "kernel_create_node")
        # entity type derives from the blueprint id
        for bb, t in b.calls(r"kernel_allocate_node_id$"):
            names = origin_names(b, t["args"][1], deep=True)
            ctx.ob("new_object_internal|entity-type-from-blueprint", any("get_internal_entity_type" in x or "get_global_entity_type" in x or "id_allocation" in x for x in names),
                   f"entity type originates from {[x for x in sorted(names) if 'call:' in x][:3]}", b.loc(bb))
    else:
        ctx.ob("anchor|new_object_internal", False, "not found")
    root = sysfn(F, "key_value_store_new")
    b = the_body(ctx, root, r"kernel_create_node$") if root else None
    if b is not None:
        check_guarded(ctx, "key_value_store_new|schema-validated", b, call_blocks(b, r"kernel_create_node$"),
                      [G_try(r"SystemService::validate_kv_store_generic_args$")], "kernel_create_node")
        ctx.ob("key_value_store_new|validate_schema-called", any(x.calls(r"::validate_schema$") for x in ctx.bodies_of(root)), "additional schemas pass validate_schema", b.loc())
    else:
        ctx.ob("anchor|key_value_store_new", False, "not found")

    ctx.rule("T7/T2: the ownership / reference rejections of the kernel (duplicate owns, missing own/ref, non-global ref in store, borrowed or "
             "pinned node on persist) are live and their rejecting arms are doomed")
    for en, vs in ((CF + "SubstateDiffError", ["ContainsDuplicateOwns"]), (CF + "TakeNodeError", ["OwnNotFound"]),
                   (CF + "ProcessSubstateError", ["RefNotFound", "RefCantBeAddedToSubstate", "NonGlobalRefNotAllowed", "CantDropNodeInStore"]),
                   (CF + "PersistNodeError", ["ContainsNonGlobalRef", "NodeBorrowed", "CannotPersistPinnedNode"])):
        cons = variant_constructors(F, en, r"^(<)?radix_engine::kernel::")
        for v in vs:
            fns = cons.get(v, [])
            ok = bool(fns)
            for fn in fns[:3]:
                bb_ = ctx.body(fn)
                for s in agg_blocks(bb_, re.escape(en) + "$", v):
                    ok = ok and doomed(bb_, s)
            ctx.ob(f"kernel-rejection|{en.split('::')[-1]}::{v}", ok, f"constructed in {[f.split('::')[-1] for f in fns][:3]}, every site doomed: {ok}", F.fns[fns[0]].loc() if fns else "")
    ctx.rule("T2 per-element: in OpenedSubstate::diff and SubstateDiff::from_new_substate the loop over the value's owned nodes reaches its next "
             "iteration (or Ok) only through the `insert(own) == true` edge of a duplicate test whose other arm is doomed — every listed own is "
             "tested, not only the newly added ones")
    for n in (CF + "OpenedSubstate::diff", CF + "SubstateDiff::from_new_substate"):
        short = n.rsplit("::", 2)[1] + "::" + n.rsplit("::", 1)[-1]
        if not ctx.anchor(n):
            continue
        b = ctx.body(n)
        loops = []
        for bb, ed, ow, si in b.enum_guards(r"core::option::Option$", lambda a: a.kind == "call" and a.what.endswith("Iterator>::next")):
            nx = [a for a in si["atoms"] if a.kind == "call" and a.what.endswith("Iterator>::next")]
            if not nx or "Some" not in ed:
                continue
            recv = b.term(nx[0].bb)["args"][0]
            src = origin_names(b, recv)
            # the iterator comes from into_iter(owned_nodes())
            ok_src = False
            for a in b.origins(recv):
                if a.kind == "call" and a.what.endswith("::into_iter"):
                    ok_src = any(x.endswith("::owned_nodes") for x in origin_names(b, b.term(a.bb)["args"][0]))
            if ok_src:
                loops.append((nx[0].bb, ed["Some"]))
        ctx.ob(f"{short}|owned-nodes-loop", len(loops) == 1, f"{len(loops)} loop(s) over value.owned_nodes()", b.loc())
        pass_e = [(bb, tru) for bb, tru, fal, si in b.call_bool_guards(r"IndexSet(<[^>]*>)?::insert$") if fal is not None and doomed(b, fal)]
        for head, some in loops[:1]:
            region = b.reach((some,), blocked_edges=pass_e)
            bad = head in region or bool(region & set(b.ok_exits()))
            ctx.ob(f"{short}|every-own-passes-the-duplicate-test", bool(pass_e) and not bad,
                   "each iteration continues only through the duplicate test's `newly inserted` edge" if pass_e and not bad else
                   "an owned node can be accepted WITHOUT the duplicate test (a path from the loop body back to the loop head / Ok avoids it)", b.loc(head))
    n = SIO + "SubstateIO::move_node_from_heap_to_store"
    if ctx.anchor(n):
        b = ctx.body(n)
        t = call_blocks(b, r"::create_node$|CommitableSubstateStore::create_node$")
        check_guarded(ctx, "move_node_from_heap_to_store|not-borrowed", b, t, [G_bool_call(r"SubstateLocks::node_is_locked$|NonIterMap.*::get$|::node_is_locked$", False)], "store.create_node") if False else None
        errs = agg_blocks(b, re.escape(CF) + "PersistNodeError$")
        ctx.ob("move_node_from_heap_to_store|rejections-doomed", len(errs) >= 3 and all(doomed(b, s) for s in errs), f"{len(errs)} PersistNodeError site(s), all doomed", b.loc())
    ctx.assume("the whole-database invariants themselves are a global inductive property; only the local obligations that establish them are checked")
