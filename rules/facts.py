"""Fact extraction (E1 orchestration) and fact database loading.

Facts are produced by /verif/driver (a rustc_private MIR dumper) run as
RUSTC_WORKSPACE_WRAPPER under `cargo +nightly check --offline` over /repo's *current*
working tree.  They are cached under /verif/.cache/<tree-hash>/ where <tree-hash> covers
every *.rs / Cargo.toml / Cargo.lock of /repo (outside target/), so any edit to /repo
forces a re-extraction.  Nothing of /repo is executed.
"""
import fcntl
import hashlib
import json
import os
import shutil
import subprocess
import sys
import time

VERIF = os.path.dirname(os.path.dirname(os.path.abspath(__file__)))
REPO = os.environ.get("VERIF_REPO", "/repo")
CACHE = os.environ.get("VERIF_CACHE") or os.path.join(VERIF, ".cache")
DRIVER = os.path.join(VERIF, "driver", "target", "release", "verif-driver")

# configuration A: execution / library crates with their default features
CONFIG_A_PKGS = [
    "sbor", "radix-rust", "radix-common", "radix-engine-interface",
    "radix-substate-store-interface", "radix-substate-store-impls", "radix-native-sdk",
    "radix-blueprint-schema-init", "radix-transactions", "radix-engine",
]
CONFIG_A_CRATES = [p.replace("-", "_") for p in CONFIG_A_PKGS]
# function-count floors per crate (measured on the pinned tree, minus ~15 %): a crate that
# silently lost most of its bodies (failed build, wrong feature set) is a broken check.
FLOORS_A = {
    "sbor": 1100, "radix_rust": 40, "radix_common": 4800, "radix_engine_interface": 5500,
    "radix_substate_store_interface": 100, "radix_substate_store_impls": 450,
    "radix_native_sdk": 140, "radix_blueprint_schema_init": 300,
    "radix_transactions": 4800, "radix_engine": 10500,
}
FLOORS_B = {"radix_substate_store_impls": 550}

SKIP_DIRS = {"target", ".git", "node_modules", ".cache"}


def repo_hash():
    h = hashlib.sha256()
    n = 0
    for root, dirs, files in os.walk(REPO):
        dirs[:] = sorted(d for d in dirs if d not in SKIP_DIRS)
        for f in sorted(files):
            if f.endswith(".rs") or f in ("Cargo.toml", "Cargo.lock"):
                p = os.path.join(root, f)
                try:
                    with open(p, "rb") as fh:
                        data = fh.read()
                except OSError:
                    continue
                h.update(os.path.relpath(p, REPO).encode())
                h.update(b"\0")
                h.update(hashlib.sha256(data).digest())
                n += 1
    return h.hexdigest()[:20], n


def _driver_hash():
    h = hashlib.sha256()
    for f in ("driver/src/main.rs", "driver/Cargo.toml"):
        with open(os.path.join(VERIF, f), "rb") as fh:
            h.update(fh.read())
    return h.hexdigest()[:8]


def _run(cmd, env, log):
    with open(log, "ab") as lf:
        lf.write(("\n$ " + " ".join(cmd) + "\n").encode())
        lf.flush()
        return subprocess.call(cmd, env=env, cwd=REPO, stdout=lf, stderr=subprocess.STDOUT)


def _build_driver():
    src = os.path.join(VERIF, "driver", "src", "main.rs")
    if os.path.exists(DRIVER) and os.path.getmtime(DRIVER) >= os.path.getmtime(src):
        return
    rc = subprocess.call([os.path.join(VERIF, "bin", "setup")])
    if rc != 0 or not os.path.exists(DRIVER):
        raise SystemExit("BROKEN: cannot build the fact-extraction driver")


def _sysroot_lib():
    out = subprocess.check_output(["rustc", "+nightly", "--print", "sysroot"], cwd=os.path.join(VERIF, "driver"))
    return os.path.join(out.decode().strip(), "lib")


def _extract(config, outdir, target, log):
    env = dict(os.environ)
    env.pop("RUSTC_WRAPPER", None)
    env.update({
        "CARGO_NET_OFFLINE": "true",
        "LD_LIBRARY_PATH": _sysroot_lib() + ":" + env.get("LD_LIBRARY_PATH", ""),
        "RUSTC_WORKSPACE_WRAPPER": DRIVER,
        "CARGO_TARGET_DIR": target,
        "RUSTFLAGS": "-Zmir-opt-level=0 -Awarnings -Cdebug-assertions=off -Coverflow-checks=on -Zub-checks=no",
        "VERIF_OUT": outdir,
        "RUSTUP_TOOLCHAIN": "nightly",
        "CARGO_INCREMENTAL": "0",
    })
    os.makedirs(outdir, exist_ok=True)
    if config == "A":
        env["VERIF_CRATES"] = ",".join(CONFIG_A_CRATES)
        cmd = ["cargo", "+nightly", "check", "--offline", "--lib"]
        for p in CONFIG_A_PKGS:
            cmd += ["-p", p]
    else:
        empty = os.path.join(target, "empty-rocksdb-lib")
        os.makedirs(empty, exist_ok=True)
        env["VERIF_CRATES"] = "radix_substate_store_impls"
        env["ROCKSDB_LIB_DIR"] = empty
        env["ROCKSDB_STATIC"] = "1"
        cmd = ["cargo", "+nightly", "check", "--offline", "--lib", "-p", "radix-substate-store-impls",
               "--features", "rocksdb"]
    return _run(cmd, env, log)


def ensure_facts(configs=("A",), verbose=True):
    """Returns the fact directory for /repo's current tree, extracting if needed."""
    th, nfiles = repo_hash()
    key = th + "-" + _driver_hash()
    base = os.path.join(CACHE, key)
    os.makedirs(CACHE, exist_ok=True)
    lockf = open(os.path.join(CACHE, "lock"), "w")
    fcntl.flock(lockf, fcntl.LOCK_EX)
    try:
        _build_driver()
        need = [c for c in configs if not os.path.exists(os.path.join(base, c, "DONE"))]
        if need:
            # keep only the latest tree state
            for d in os.listdir(CACHE):
                p = os.path.join(CACHE, d)
                if os.path.isdir(p) and d != key and not d.startswith("target"):
                    shutil.rmtree(p, ignore_errors=True)
            target = os.path.join(CACHE, "target")
            log = os.path.join(CACHE, "extract.log")
            t0 = time.time()
            for c in need:
                outdir = os.path.join(base, c)
                shutil.rmtree(outdir, ignore_errors=True)
                # the wrapper is skipped for fresh fingerprints: remove member fingerprints
                fp = os.path.join(target, "debug", ".fingerprint")
                if os.path.isdir(fp):
                    for d in os.listdir(fp):
                        if any(d.startswith(p + "-") for p in CONFIG_A_PKGS):
                            shutil.rmtree(os.path.join(fp, d), ignore_errors=True)
                if verbose:
                    print(f"[facts] extracting config {c} for tree {th} ({nfiles} source files) ...", flush=True)
                rc = _extract(c, outdir, target, log)
                if rc != 0:
                    tail = subprocess.run(["tail", "-n", "40", log], capture_output=True, text=True).stdout
                    sys.stdout.write(tail)
                    raise SystemExit(f"BROKEN: fact extraction (config {c}) failed: /repo does not type-check "
                                     f"under the analysis toolchain; see {log}")
                with open(os.path.join(outdir, "DONE"), "w") as fh:
                    fh.write(json.dumps({"tree": th, "files": nfiles, "wall_s": time.time() - t0}))
            if os.environ.get("VERIF_KEEP_TARGET") != "1":
                shutil.rmtree(target, ignore_errors=True)
            if verbose:
                print(f"[facts] extraction done in {time.time()-t0:.0f}s", flush=True)
    finally:
        fcntl.flock(lockf, fcntl.LOCK_UN)
        lockf.close()
    return base, th


class Fn:
    __slots__ = ("name", "crate", "mod", "file", "line", "kind", "parent", "timpl", "tdecl", "vis",
                 "calls", "vars", "structs", "fw", "fr", "consts", "strs", "asserts", "casts", "nb",
                 "off", "len", "src")

    def __init__(self, d, src):
        self.name = d["fn"]; self.crate = d["crate"]; self.mod = d["mod"]; self.file = d["file"]
        self.line = d["line"]; self.kind = d["kind"]; self.parent = d["parent"]; self.timpl = d["timpl"]
        self.tdecl = d["tdecl"]; self.vis = d["vis"]; self.calls = d["calls"]; self.vars = d["vars"]
        self.structs = d["structs"]; self.fw = d["fw"]; self.fr = d["fr"]; self.consts = d["consts"]
        self.strs = d["strs"]; self.asserts = d["asserts"]; self.casts = d["casts"]; self.nb = d["nb"]
        self.off = d["off"]; self.len = d["len"]; self.src = src

    @property
    def root(self):
        """the enclosing non-closure item"""
        return self.parent or self.name

    def loc(self):
        f = self.file
        if f.startswith(REPO + "/"):
            f = f[len(REPO) + 1:]
        return f"{f}:{self.line}"


class Facts:
    def __init__(self, base, config):
        self.dir = os.path.join(base, config)
        self.config = config
        self.fns = {}
        self.enums = {}
        self.consts = {}
        self.strconsts = {}
        self.aliases = {}
        self.meta = {}
        self._bodies = {}
        floors = FLOORS_A if config == "A" else FLOORS_B
        files = sorted(f for f in os.listdir(self.dir) if f.endswith(".light.jsonl"))
        # a crate may be compiled twice (host/target or feature sets): keep the unit with most bodies
        best = {}
        for f in files:
            crate = f.rsplit("-", 1)[0]
            size = os.path.getsize(os.path.join(self.dir, f))
            if crate not in best or size > best[crate][0]:
                best[crate] = (size, f)
        import marshal
        for crate, (_, f) in sorted(best.items()):
            full = os.path.join(self.dir, f.replace(".light.", ".full."))
            lp = os.path.join(self.dir, f)
            mp = lp + ".marshal"
            recs = None
            if os.path.exists(mp) and os.path.getmtime(mp) >= os.path.getmtime(lp):
                try:
                    with open(mp, "rb") as fh:
                        recs = marshal.load(fh)
                except Exception:
                    recs = None
            if recs is None:
                with open(lp) as fh:
                    recs = [json.loads(line) for line in fh]
                try:
                    tmp = mp + f".{os.getpid()}"
                    with open(tmp, "wb") as fh:
                        marshal.dump(recs, fh)
                    os.replace(tmp, mp)
                except OSError:
                    pass
            for d in recs:
                if "fn" in d:
                    self.fns[d["fn"]] = Fn(d, full)
                elif "enum" in d:
                    self.enums[d["enum"]] = {int(v): n for v, n in d["variants"]}
                elif "const" in d:
                    self.consts[d["const"]] = int(d["value"])
                elif "strconst" in d:
                    self.strconsts[d["strconst"]] = d["value"]
                elif "alias" in d:
                    self.aliases[d["alias"]] = d["ty"]
                elif "meta" in d:
                    self.meta[d["meta"]] = d
        for crate, floor in floors.items():
            n = self.meta.get(crate, {}).get("fns", 0)
            if n < floor:
                raise SystemExit(f"BROKEN: facts for crate {crate} (config {config}) have {n} bodies, "
                                 f"floor is {floor}; extraction incomplete")
        self._by_root = None
        self._callers = None
        self._impls = None

    def body(self, name):
        b = self._bodies.get(name)
        if b is None:
            f = self.fns[name]
            with open(f.src, "rb") as fh:
                fh.seek(f.off)
                b = json.loads(fh.read(f.len))
            self._bodies[name] = b
        return b

    def by_root(self):
        """root item -> [fn names incl. closures]"""
        if self._by_root is None:
            m = {}
            for f in self.fns.values():
                m.setdefault(f.root, []).append(f.name)
            self._by_root = m
        return self._by_root

    def impls(self):
        """trait method canonical name -> [impl method names] (class-hierarchy resolution)"""
        if self._impls is None:
            m = {}
            for f in self.fns.values():
                if f.timpl and f.kind == "AssocFn":
                    meth = f.name.rsplit("::", 1)[1]
                    m.setdefault(f.timpl[0] + "::" + meth, []).append(f.name)
            self._impls = m
        return self._impls

    def callers(self):
        """callee (resolved and declared) -> [(caller fn name, call record)]"""
        if self._callers is None:
            m = {}
            for f in self.fns.values():
                for c in f.calls:
                    m.setdefault(c[0], []).append((f.name, c))
                    if c[1] != c[0]:
                        m.setdefault(c[1], []).append((f.name, c))
            self._callers = m
        return self._callers

    def find(self, pattern):
        import re
        r = re.compile(pattern)
        return sorted(n for n in self.fns if r.search(n))


def load(configs=("A",)):
    base, th = ensure_facts(configs)
    return {c: Facts(base, c) for c in configs}, th


if __name__ == "__main__":
    cfgs = tuple(sys.argv[1:]) or ("A",)
    t = time.time()
    fs, th = load(cfgs)
    for c, f in fs.items():
        print(c, th, len(f.fns), "fns", len(f.enums), "enums", len(f.consts), "consts", f"{time.time()-t:.1f}s")
        for k, m in sorted(f.meta.items()):
            print("  ", k, m["fns"], m["features"])
