"""C17 The state root commits exactly to the current substates — the tier-update shape clause (what is hashed into which leaf)."""
import re
from lib import *
from c15 import arm_regions

ST = "radix_substate_store_impls::state_tree::"
SUB = ST + "substate_tier::SubstateTier"
PART = ST + "partition_tier::PartitionTier"
ENT = ST + "entity_tier::EntityTier"
IF = "radix_substate_store_interface::interface::PartitionDatabaseUpdates"


def run(ctx):
    F = ctx.F
    ctx.rule("T5/T8 in SubstateTier::apply_partition_updates: the match over PartitionDatabaseUpdates has no catch-all; in a Delta, Set produces "
             "Some(new_leaf(value)) and Delete produces None; a Reset records the old subtree as stale and sets the tier root to None *before* the "
             "new leaves are generated; new_leaf hashes the substate value it is given")
    n = SUB + "::apply_partition_updates"
    if ctx.anchor(n):
        bs = ctx.bodies_of(n)
        b = ctx.body(n)
        gs = b.enum_guards(re.escape(IF) + "$")
        ctx.ob("substate-tier|match", len(gs) == 1 and gs[0][2] is None and set(gs[0][1]) == {"Delta", "Reset"}, f"match on PartitionDatabaseUpdates: {[(sorted(g[1]), g[2]) for g in gs]}", b.loc())
        for bb, ed, ow, si in gs[:1]:
            ex = arm_regions(b, bb, ed)
            reset = ex.get("Reset", set())
            srv = [x for x, _ in b.calls(r"::set_root_version$") if x in reset]
            stale = [x for x, _ in b.calls(r"::record_stale_tree_part$") if x in reset]
            ok = bool(srv)
            for x in srv:
                t = b.term(x)
                names = origin_names(b, t["args"][1])
                ok = ok and any(n_.endswith("Option::None") for n_ in names)
            ctx.ob("substate-tier|reset-empties-root", ok, f"Reset arm calls set_root_version(None) at bb{srv}", b.loc(bb))
            ctx.ob("substate-tier|reset-records-stale-subtree", bool(stale), f"Reset arm records the old subtree as stale at bb{stale}", b.loc(bb))
            gen = call_blocks(b, r"::generate_tier_update_batch$")
            ok2 = bool(gen) and bool(srv) and not (b.reach((ed["Reset"],), blocked_blocks=srv + [bb]) & set(gen))
            ctx.ob("substate-tier|reset-before-regeneration", ok2, "on the Reset path the update batch is generated only after the root was emptied", b.loc(bb))
            delta = ex.get("Delta", set())
            ctx.ob("substate-tier|delta-keeps-root", not [x for x, _ in b.calls(r"::set_root_version$") if x in delta], "the Delta arm does not reset the tier root", b.loc(bb))
        # the Delta closure: Set -> Some(new_leaf(value)), Delete -> None
        done = False
        for x in bs:
            for bb, ed, ow, si in x.enum_guards(r"state_updates::DatabaseUpdate$"):
                done = True
                exx = arm_regions(x, bb, ed)
                nl = set(call_blocks(x, re.escape(SUB) + r"::new_leaf$"))
                somes = set(agg_blocks(x, r"core::option::Option$", "Some"))
                nones = set(agg_blocks(x, r"core::option::Option$", "None"))
                ok = ow is None and bool(exx.get("Set", set()) & nl) and not (exx.get("Delete", set()) & nl) and bool(exx.get("Delete", set()) & nones) and not (exx.get("Delete", set()) & somes)
                ctx.ob("substate-tier|set-hashes-delete-removes", ok, "Set arm builds Some(new_leaf(value)); Delete arm builds None", x.loc(bb))
        ctx.ob("substate-tier|delta-closure-found", done, "closure matching on DatabaseUpdate found")
    n = SUB + "::new_leaf"
    if ctx.anchor(n):
        b = ctx.body(n)
        hs = b.calls(r"crypto::hash::hash$|::hash::hash$")
        ok = len(hs) == 1 and origin_names(b, hs[0][1]["args"][0]) == {"param:1"}
        tup = [s for bb, kind, s in b.defs(0) if kind == "=" and s["rv"]["k"] == "agg" and s["rv"].get("ak") == "tuple"]
        ok2 = bool(tup) and any(x.endswith("hash::hash") for x in origin_names(b, tup[0]["rv"]["ops"][0]))
        ctx.ob("new_leaf|hash-of-the-value", ok and ok2, "new_leaf returns (hash(value), version): the leaf commits to the substate value it was given", b.loc())

    ctx.rule("T8 tier chaining: the leaf of a partition is the root hash returned by its substate tier and the leaf of an entity is the root hash "
             "returned by its partition tier (None = leaf removed), both stamped with the next version")
    for owner, callee, label in ((PART + "::apply_entity_updates", re.escape(SUB) + r"::apply_partition_updates$", "partition"),
                                 (ENT + "::put_entity_updates", re.escape(PART) + r"::apply_entity_updates$", "entity")):
        if not ctx.anchor(owner):
            continue
        bs = ctx.bodies_of(owner)
        hit = [(x, bb, t) for x in bs for bb, t in x.calls(callee)]
        ctx.ob(f"{label}-tier|calls-lower-tier", len(hit) == 1, f"{len(hit)} call(s) to the lower tier", F.fns[owner].loc())
        for x, bb, t in hit:
            maps = [(mb, mt) for mb, mt in x.calls(r"core::option::Option(<.*>)?::map$") if any(re.search(callee, n_) for n_ in origin_names(x, mt["args"][0]))]
            ctx.ob(f"{label}-tier|leaf-is-lower-root", len(maps) == 1, "the new leaf is derived (Option::map) from the lower tier's returned root hash", x.loc(bb))
            # the mapping closure returns (hash param, version) unchanged
            for mb, mt in maps:
                cl = [a.extra.get("def") for a in x.origins(mt["args"][1]) if a.kind == "agg" and a.extra and a.extra.get("ak") == "closure"]
                for c in cl:
                    cb = ctx.body(c)
                    tup = [s for b2, kind, s in cb.defs(0) if kind == "=" and s["rv"]["k"] == "agg" and s["rv"].get("ak") == "tuple"]
                    ok = bool(tup) and origin_names(cb, tup[0]["rv"]["ops"][0]) == {"param:2"}
                    ctx.ob(f"{label}-tier|leaf-hash-unchanged", ok, "the leaf hash is exactly the lower tier's root hash", cb.loc())
    n = ENT + "::put_next_version_entity_updates"
    if ctx.anchor(n):
        b = ctx.body(n)
        ctx.ob("entity-tier|next-version", bool(b.calls(re.escape(ENT) + r"::put_entity_updates$")), "put_next_version_entity_updates delegates to put_entity_updates", b.loc())
    ctx.rule("one-sided comparison (Engler) in JellyfishMerkleTree::batch_insert_at: the collapse condition `a node left with at most one child` "
             "tests the surviving old children and the newly created children symmetrically — both `len() <= 1`; an `== 1` on one side drops the "
             "case `no old child, one new leaf`, which is then stored as an internal node with a single leaf and hashed with placeholder siblings "
             "(the root stops matching the from-scratch commitment)")
    bi = [x for x in F.fns if x.endswith("JellyfishMerkleTree::batch_insert_at")]
    ctx.ob("jmt-collapse|anchor", len(bi) == 1, f"batch_insert_at: {len(bi)}")
    for x in bi[:1]:
        b = ctx.body(x)
        ops = []
        for sb in b.switches():
            si = b.switch_info(sb)
            if si and si["kind"] == "bool":
                for a in si["atoms"]:
                    if a.kind == "bin" and a.what in ("Le", "Lt", "Eq", "Ne", "Gt", "Ge") and b.const_value(a.extra["b"]) in (1, 2) and \
                            any(y.endswith("::len") for y in origin_names(b, a.extra["a"])):
                        ops.append((a.what, b.const_value(a.extra["b"])))
        at_most_one = [o for o in ops if o in (("Le", 1), ("Lt", 2), ("Gt", 1), ("Ge", 2))]
        ctx.ob("jmt-collapse|both-child-counts-tested-at-most-one", len(ops) >= 2 and len(at_most_one) == len(ops),
               f"child-count tests against 1: {ops}" + ("" if len(at_most_one) == len(ops) else " — an equality test on one side makes the collapse one-sided"), b.loc())
    ctx.assume("equality of the computed root with an independent sparse-Merkle commitment, batching independence and the jellyfish tree algorithm "
               "itself are value-level and NOT decided; only what is hashed into which leaf, and that a Reset empties the tier first, are")
