"""C41 Liquidity pools stay solvent and fair — rounding-direction clause (T9 constant agreement)."""
import re
from lib import *

P = "radix_engine::blueprints::pool::"
DOWN = {"ToNegativeInfinity", "ToZero"}
UP = {"ToPositiveInfinity"}
# root function (regex) -> (allowed rounding modes, reason)
TABLE = [
    (r"PoolBlueprint::calculate_amount_owed$", DOWN, "payout owed to a redeemer is rounded down (pool keeps the dust)"),
    (r"PoolBlueprint::contribute$", DOWN | UP, "change handed back is withdrawn rounded down; first-contribution pool units / required counter-contribution rounded up"),
]


def run(ctx):
    F = ctx.F
    ctx.rule("T9: every RoundingMode constructed in blueprints::pool is in the audited per-function set: payout computations "
             "(calculate_amount_owed, used by redeem and get_redemption_value) only round down; only `contribute` may round up")
    sites = {}
    for f in F.fns.values():
        if f.name.startswith(P):
            ms = {v.rsplit("::", 1)[-1] for v in f.vars if re.search(r"::RoundingMode::[A-Za-z]+$", v)}
            if ms:
                sites.setdefault(f.root, set()).update(ms)
    ctx.floor("rounding-sites", len(sites), 10, "functions constructing a RoundingMode in blueprints::pool")
    for root in sorted(sites):
        row = next(((a, why) for pat, a, why in TABLE if re.search(pat, root)), None)
        short = ".".join(root.split("::")[-4:])
        if row is None:
            ctx.ob(f"rounding|{short}", False, f"{root} constructs RoundingMode {sorted(sites[root])} but is not in the audited table", F.fns[root].loc())
        else:
            ok = sites[root] <= row[0]
            ctx.ob(f"rounding|{short}", ok, f"{root} rounds {sorted(sites[root])}; allowed {sorted(row[0])} ({row[1]})", F.fns[root].loc())
            ctx.sample({"fn": root, "modes": sorted(sites[root]), "allowed": sorted(row[0])})
    ctx.rule("T2: inside `contribute` a value is rounded UP only where no pool units are in circulation (first contribution: nobody to dilute): "
             "every construction of RoundingMode::ToPositiveInfinity — followed outwards through the closures it sits in — is dominated by the "
             "`pool unit total supply is zero / not > 0` edge of the supply test; pool units minted against existing holders are never rounded up")
    def closure_sites(body):
        out = {}
        for i in range(body.n):
            for st in body.stmts(i):
                if st["k"] == "=" and st["rv"]["k"] == "agg" and st["rv"].get("ak") == "closure" and st["rv"].get("def"):
                    out[st["rv"]["def"]] = i
        return out

    def supply_guard(body):
        e, bl = [], []
        for bb, tru, fal, si in body.bool_guards(lambda a: a.kind == "call" and re.search(r"::(gt|eq|ne|is_zero)$", a.what)):
            for a in si["atoms"]:
                if a.kind != "call" or not re.search(r"::(gt|eq|ne|is_zero)$", a.what):
                    continue
                args = a.extra["args"][:2]
                src = [{x.rsplit("::", 1)[-1] for x in origin_names(body, arg)} for arg in args]
                if not any("total_supply" in s_ for s_ in src):
                    continue
                op = a.what.rsplit("::", 1)[-1]
                if op == "gt" and "total_supply" in src[0]:
                    e.append((bb, fal)); bl.append(bb)          # supply > 0 is false
                elif op in ("eq", "is_zero"):
                    e.append((bb, tru)); bl.append(bb)          # supply == 0
                elif op == "ne":
                    e.append((bb, fal)); bl.append(bb)
        return e, bl
    n_up = 0
    for root in sorted(r_ for r_ in sites if re.search(r"PoolBlueprint::contribute$", r_) and "ToPositiveInfinity" in sites[r_]):
        bodies = {x.name: x for x in ctx.bodies_of(root)}
        parent_of = {}
        for nm, x in bodies.items():
            for cdef, blk in closure_sites(x).items():
                parent_of[cdef] = (nm, blk)
        for nm, x in sorted(bodies.items()):
            ups = [i for i in range(x.n) for st in x.stmts(i)
                   if st["k"] == "=" and st["rv"]["k"] == "agg" and st["rv"].get("var") == "ToPositiveInfinity" and (st["rv"].get("adt") or "").endswith("RoundingMode")]
            for blk in ups:
                n_up += 1
                cur, cur_blk, ok, where = nm, blk, False, None
                for _ in range(6):
                    cb = bodies[cur]
                    e, bl = supply_guard(cb)
                    if bl:
                        ok = cb.unreachable_without([cur_blk], e)[0]
                        where = (cur, bl)
                        break
                    if cur not in parent_of:
                        break
                    cur, cur_blk = parent_of[cur]
                short = ".".join(root.split("::")[-4:-1])
                ctx.ob(f"round-up-only-without-circulating-units|{short}|{nm[len(root):] or 'root'}", ok,
                       (f"round-up site reached only where the pool-unit supply test says `none in circulation` (test at bb{where[1]} of {where[0][len(root):] or 'root'})" if ok else
                        "a value is rounded UP on a path where pool units may be in circulation (or no supply test encloses it): the contributor can be minted more than the pro-rata share"),
                       x.loc(blk))
    ctx.floor("round-up-sites-in-contribute", n_up, 4)
    ctx.rule("T9: every WithdrawStrategy::Rounded(..) built inside a pool blueprint carries a round-down mode")
    n = 0
    for name, f in F.fns.items():
        if name.startswith(P) and any(v.endswith("WithdrawStrategy::Rounded") for v in f.vars):
            b = ctx.body(name)
            for i in range(b.n):
                for s in b.stmts(i):
                    if s["k"] == "=" and s["rv"]["k"] == "agg" and s["rv"].get("var") == "Rounded" and s["rv"].get("adt", "").endswith("WithdrawStrategy"):
                        n += 1
                        names = origin_names(b, s["rv"]["ops"][0])
                        modes = {x.rsplit("::", 1)[-1] for x in names if "RoundingMode::" in x}
                        ok = bool(modes) and modes <= DOWN and all("RoundingMode::" in x for x in names)
                        ctx.ob(f"withdraw-strategy|{'.'.join(f.root.split('::')[-4:])}", ok, f"WithdrawStrategy::Rounded({sorted(names)})", b.loc(i))
    ctx.floor("withdraw-strategy-sites", n, 3)
    ctx.rule("T4: redeem and get_redemption_value obtain the payout only from calculate_amount_owed")
    for ver in ("v1_0", "v1_1"):
        for bp in ("one_resource_pool_blueprint::OneResourcePoolBlueprint", "two_resource_pool_blueprint::TwoResourcePoolBlueprint",
                   "multi_resource_pool_blueprint::MultiResourcePoolBlueprint"):
            for fn in ("redeem", "get_redemption_value"):
                root = f"{P}v1::{ver}::{bp}::{fn}"
                bodies = ctx.bodies_of(root)
                if not bodies:
                    ctx.ob(f"anchor|{ver}.{bp.split('::')[1]}.{fn}", False, f"{root} not found")
                    continue
                calls = any(b.calls(r"PoolBlueprint::calculate_amount_owed$") for b in bodies)
                own = any(re.search(r"::(checked_round|checked_div|checked_mul)$", c[0]) for b in bodies for c in b.fn.calls)
                ctx.ob(f"payout-via-calculate_amount_owed|{ver}.{bp.split('::')[1]}.{fn}", calls and not own,
                       f"{fn} calls calculate_amount_owed: {calls}; does its own rounding arithmetic: {own}", bodies[0].loc())
    ctx.assume("every arithmetic clause (share proportionality, conservation, non-emptiness) is value-level and not decided")
