"""C01 Transaction execution is deterministic — no hash-order / clock / randomness / environment dependence on the execution path;
diagnostic settings and trace modules are effect-free."""
import re
from lib import *

SCOPE = {"radix_engine", "radix_engine_interface", "radix_common", "sbor", "radix_transactions", "radix_native_sdk",
         "radix_substate_store_interface", "radix_blueprint_schema_init", "radix_rust"}
HASH_ITER = re.compile(
    r"^(std::collections::hash|hashbrown)::(map|set)::(HashMap|HashSet)(<.*>)?::"
    r"(iter|iter_mut|keys|values|values_mut|into_keys|into_values|drain|retain|extract_if|difference|intersection|union|symmetric_difference)$"
    r"|^<&?(mut )?(std::collections::hash|hashbrown)::(map|set)::(HashMap|HashSet)(<.*>)? as core::iter::traits::collect::IntoIterator>::into_iter$"
    r"|^<(std::collections::hash|hashbrown)::(map|set)::(HashMap|HashSet)(<.*>)? as core::fmt::Debug>::fmt$"
    r"|^<(std::collections::hash|hashbrown)::(map|set)::[A-Za-z]*(Iter|Keys|Values|Drain|IntoIter|IntoKeys|IntoValues)[A-Za-z]*(<.*>)? as core::iter::traits::iterator::Iterator>::")
ENV = re.compile(r"^(std::time::(Instant|SystemTime)(<.*>)?::(now|elapsed)|rand::|rand_core::|getrandom::|fastrand::|std::env::|std::thread::(current|sleep|spawn)"
                 r"|std::process::|std::fs::|std::net::|std::hash::random::RandomState::new|std::io::stdin|std::thread::local::LocalKey)")
ENV_ALLOWED = {r"^radix_transactions::manifest::dumper$": "writes manifest files for tooling; not on the execution path"}
CAST_ALLOWED = {r"WasmiInstance as radix_engine::vm::wasm::traits::WasmInstance>::invoke_export$":
                "stores the runtime pointer in the wasmi host state (round-trips to a pointer, never used as data)"}


def sanitised(b, bb, t):
    """the hash-order iterator's only consumer is an order-insensitive one: collect into a BTree*/Hash*/NonIterMap,
    count/sum/min/max/all/any, or collect::<Vec> immediately followed by sort on that Vec"""
    d = t["d"][0]
    consumers = [(i, tt) for i, tt in b.calls(None) if any(a[0] in ("m", "c") and a[1][0] == d for a in tt["args"])]
    if len(consumers) != 1:
        return False, f"{len(consumers)} consumers"
    i, c = consumers[0]
    f = c["f"]
    if re.search(r"Iterator::(count|sum|min|max|all|any|min_by_key|max_by_key|fold)$", f) and not f.endswith("fold"):
        return True, f
    if f.endswith("Iterator::collect"):
        ga = c["ga"]
        if re.search(r"BTreeSet|BTreeMap|HashSet|HashMap|NonIterMap", ga):
            return True, "collect::<" + ga[:60] + ">"
        if "Vec" in ga:
            v = c["d"][0]
            sorts = [x for x in b.mut_borrow_calls(v) if re.search(r"::(sort|sort_unstable|sort_by|sort_by_key|sort_unstable_by|sort_unstable_by_key)$", x["f"])]
            return (bool(sorts), "collect::<Vec> then sort" if sorts else "collect::<Vec> without sort")
    return False, f


def run(ctx):
    F = ctx.F
    ctx.rule("T1: no function of the execution/library crates iterates a std/hashbrown hash collection (order-revealing API) unless the "
             "iterator's only consumer is order-insensitive (collect into BTree*/Hash*, count/sum/min/max/all/any, or collect::<Vec> + sort)")
    n_fn, n_sites, n_san = 0, 0, 0
    for f in F.fns.values():
        if f.crate not in SCOPE:
            continue
        n_fn += 1
        hits = [c for c in f.calls if HASH_ITER.search(c[0]) or HASH_ITER.search(c[1])]
        if not hits:
            continue
        b = ctx.body(f.name)
        for bb, t in b.calls(HASH_ITER):
            n_sites += 1
            ok, how = sanitised(b, bb, t)
            n_san += ok
            ctx.ob(f"hash-iteration|{f.mod}|{t['f'].split('::')[-1]}", ok,
                   f"{f.name} calls {t['f']}: " + (f"sanitised ({how})" if ok else f"order-revealing use NOT sanitised ({how})"), b.loc(bb))
            if ok:
                ctx.sample({"fn": f.name, "hash_iteration": t["f"], "sanitiser": how})
    ctx.floor("scope-functions", n_fn, 28000, "functions scanned in the determinism scope")
    ctx.note(f"{n_sites} hash-iteration site(s) in scope, {n_san} sanitised")

    ctx.rule("T1: no clock / randomness / environment / thread-identity / filesystem call in scope (manifest::dumper tooling excepted); "
             "no pointer-to-integer cast except the audited wasmi host-state pointer")
    env = {}
    for f in F.fns.values():
        if f.crate in SCOPE:
            for c in f.calls:
                if ENV.search(c[0]) or ENV.search(c[1]):
                    env.setdefault(f.root, []).append(c[0])
    if env:
        check_who_may(ctx, "environment-call", env, ENV_ALLOWED, "clock/random/env/fs call", granularity="mod")
    ctx.ob("environment-call|scan", True, f"{len(env)} function(s) with clock/random/env/fs calls in scope: {sorted(set(x for v in env.values() for x in v))}")
    casts = {f.root: f for f in F.fns.values() if f.crate in SCOPE and f.casts}
    if casts:
        check_who_may(ctx, "ptr-to-int-cast", casts, CAST_ALLOWED, "pointer-to-integer cast")

    ctx.rule("T4: the diagnostic settings (kernel trace, cost breakdown, execution trace, debug information) are read only where modules are "
             "selected / receipts are built; cost breakdown accumulators are read only by receipt construction")
    readers = {}
    for f in F.fns.values():
        if any(re.search(r"(ExecutionConfig|SystemSelfInit)\.(enable_kernel_trace|enable_cost_breakdown|execution_trace|enable_debug_information)$", x) for x in f.fr):
            readers[f.root] = f
    check_who_may(ctx, "who-reads-diagnostic-flags", readers, {
        r"^radix_engine::transaction::transaction_executor::ExecutionConfig::": "config constructors (struct update syntax copies fields)",
        r"^<radix_engine::transaction::transaction_executor::ExecutionConfig as core::(clone::Clone|fmt::Debug)>": "derived",
        r"^radix_engine::system::system_callback::SystemSelfInit::new$": "copies the flags into the system init",
        r"^radix_engine::system::system_callback::System::resolve_modules$": "selects which modules are enabled",
        r"system_callback::System as radix_engine::kernel::kernel_callback_api::KernelTransactionExecutor>::init$": "prints the kernel-trace banner",
    }, "reader of a diagnostic flag")
    ctx.floor("who-reads-diagnostic-flags", len(readers), 4)
    cb = {}
    for f in F.fns.values():
        if any(re.search(r"CostingModule\.(cost_breakdown|detailed_cost_breakdown)$", x) for x in f.fr):
            cb[f.root] = f
    check_who_may(ctx, "who-reads-cost-breakdown", cb, {
        r"CostingModule::unpack_for_receipt$": "receipt construction",
        r"^<radix_engine::system::system_modules::costing::costing_module::CostingModule as core::(clone::Clone|fmt::Debug)>": "derived",
        r"CostingModule as radix_engine::system::module::SystemModule>::(before_invoke|after_invoke)$": "detailed breakdown bookkeeping (appends an entry; result unused by execution)",
    }, "reader of the cost-breakdown accumulators")

    ctx.rule("T1 (allow-list): kernel_trace / execution_trace modules call only uncosted readers of the kernel/system API")
    API = re.compile(r"(kernel::kernel_api::|kernel_callback_api::|radix_engine_interface::api::|system::module::SystemModuleApi|system_modules::module_mixer::|"
                     r"system_modules::costing::|track::)")
    ALLOWED = re.compile(r"(::kernel_read_substate_uncosted|::current_stack_depth_uncosted|::current_stack_id_uncosted|::system_state|SystemModuleApiFor::module|"
                         r"SystemModuleApiImpl::api_ref|::read_bucket_uncosted|::read_proof_uncosted|KernelInvocation::len|::kernel_get_node_visibility_uncosted|"
                         r"ResolvableSystemModule>::resolve_from_system|::system_module_api|SystemModuleApiImpl::new|::api_mut$|HasModules::modules_mut)$|"
                         r"^<radix_engine::system::system_modules::(execution_trace|kernel_trace)")
    bad, seen = [], 0
    for f in F.fns.values():
        if re.search(r"^radix_engine::system::system_modules::(kernel_trace|execution_trace)", f.mod):
            for c in f.calls:
                if API.search(c[0]) or API.search(c[1]):
                    seen += 1
                    if not (ALLOWED.search(c[0]) or ALLOWED.search(c[1])):
                        bad.append((f.name, c[0]))
    ctx.floor("trace-module-api-calls", seen, 40)
    ctx.ob("trace-modules|effect-free", not bad, f"kernel/system API calls from the trace modules outside the uncosted-reader allow-list: {bad or 'none'}")

    ctx.rule("W (API surface): NonIterMap exposes no iteration API")
    ni = [n for n in F.fns if re.match(r"^radix_rust::rust::collections::non_iter_map::NonIterMap(<[^>]*>)?::", n) or
          re.match(r"^<(&(mut )?)?radix_rust::rust::collections::non_iter_map::NonIterMap(<[^>]*>)? as ", n)]
    it = [n for n in ni if re.search(r"::(iter|iter_mut|keys|values|values_mut|into_iter|drain|retain|into_keys|into_values)$|IntoIterator>|::Iterator>", n)]
    ctx.floor("NonIterMap-methods", len(ni), 8)
    ctx.ob("NonIterMap|no-iteration-api", not it, f"iteration-like items on NonIterMap: {it or 'none'}")
    ctx.assume("IndexMap insertion orders being input-determined, the WASM code cache returning the same module as a miss, and float "
               "non-determinism (floats are rejected at validation, C45) are not decided here")
    ctx.assume("radix-substate-store-impls (state tree) is outside this scope")
