"""Shared tables for the native resource blueprints (used by C03, C04, C09, C10)."""
import re
from lib import *

R = "radix_engine::blueprints::resource::"
FV = R + "fungible::fungible_vault::FungibleVaultBlueprint"
NV = R + "non_fungible::non_fungible_vault::NonFungibleVaultBlueprint"
FB = R + "fungible::fungible_bucket::FungibleBucketBlueprint"
NB = R + "non_fungible::non_fungible_bucket::NonFungibleBucketBlueprint"
FRM = R + "fungible::fungible_resource_manager::FungibleResourceManagerBlueprint"
NRM = R + "non_fungible::non_fungible_resource_manager::NonFungibleResourceManagerBlueprint"

# substate payload (regex on the generic argument of field_write_typed & co) -> allowed writer functions (regex) with reason
OWNERS = [
    (r"(?<![A-Za-z])FungibleVaultBalanceFieldPayload", re.escape(FV) + r"::(internal_take|internal_put|lock_fee)$", "liquid balance of a fungible vault"),
    (r"(?<![A-Za-z])FungibleVaultLockedBalanceFieldPayload", re.escape(FV) + r"::(lock_amount|unlock_amount)$", "locked balance of a fungible vault"),
    (r"(?<![A-Za-z])FungibleVaultFreezeStatusFieldPayload", re.escape(FV) + r"::(freeze|unfreeze)$", "freeze flags"),
    (r"NonFungibleVaultBalanceFieldPayload", re.escape(NV) + r"::(internal_put|internal_take_by_amount|internal_take_non_fungibles)$", "liquid amount of a non-fungible vault"),
    (r"NonFungibleVaultLockedResourceFieldPayload", re.escape(NV) + r"::(lock_non_fungibles|unlock_non_fungibles)$", "locked ids of a non-fungible vault"),
    (r"NonFungibleVaultFreezeStatusFieldPayload", re.escape(NV) + r"::(freeze|unfreeze)$", "freeze flags"),
    (r"NonFungibleVaultNonFungibleIndexEntryPayload|NonFungibleLocalId, ", re.escape(NV) + r"::(internal_put|internal_take_non_fungibles|internal_take_by_amount|contains_non_fungible)$", "id index of a non-fungible vault"),
    (r"prelude::LiquidFungibleResource\]", re.escape(FB) + r"::(internal_put|internal_take|put)$", "liquid amount of a fungible bucket"),
    (r"prelude::LockedFungibleResource\]", re.escape(FB) + r"::(lock_amount|unlock_amount)$", "locked amounts of a fungible bucket"),
    (r"prelude::LiquidNonFungibleResource\]", re.escape(NB) + r"::(internal_put|internal_take|internal_take_by_amount)$", "liquid ids of a non-fungible bucket"),
    (r"prelude::LockedNonFungibleResource\]", re.escape(NB) + r"::(lock_non_fungibles|unlock_non_fungibles)$", "locked ids of a non-fungible bucket"),
    (r"(?<![A-Za-z])FungibleResourceManagerTotalSupplyFieldPayload", re.escape(FRM) + r"::(mint|burn_internal)$", "fungible total supply"),
    (r"NonFungibleResourceManagerTotalSupplyFieldPayload", re.escape(NRM) + r"::update_total_supply$", "non-fungible total supply"),
]
WRITE_API = r"::(field_write_typed|key_value_entry_set_typed|actor_index_insert_typed|actor_index_insert|actor_index_remove|actor_sorted_index_insert_typed|actor_sorted_index_remove)$"


def typed_writes(ctx, prefix=R):
    """[(root fn, body, bb, term)] for every typed state write issued by a function under `prefix`"""
    F = ctx.F
    out = []
    for f in F.fns.values():
        if f.name.startswith(prefix) and any(re.search(WRITE_API, c[0]) for c in f.calls):
            b = ctx.body(f.name)
            for bb, t in b.calls(WRITE_API):
                out.append((f.root, b, bb, t))
    return out


def check_owner_table(ctx, key, payload_filter):
    """T4: every typed write of a payload matching payload_filter is issued by its owning functions"""
    n = 0
    flt = re.compile(payload_filter)
    for root, b, bb, t in typed_writes(ctx):
        ga = t["ga"]
        for pat, owners, why in OWNERS:
            if re.search(pat, ga) and flt.search(pat):
                n += 1
                ok = re.search(owners, root) is not None
                short = root.split("::")[-2] + "::" + root.split("::")[-1]
                ctx.ob(f"{key}|{pat.split('|')[0][:40]}|{short}", ok,
                       f"{short} writes {pat.split('|')[0]} via {t['f'].split('::')[-1]}: " + (f"owner ({why})" if ok else "NOT an audited owner of this substate"), b.loc(bb))
                break
    return n


def consts_in_blocks(b, blocks):
    out = set()
    def scan(o):
        if isinstance(o, list) and o and o[0] == "k" and isinstance(o[1], dict) and o[1].get("def"):
            out.add(o[1]["def"])
    for i in blocks:
        for s in b.stmts(i):
            rv = s.get("rv", {})
            for k in ("o", "a", "b"):
                if k in rv:
                    scan(rv[k])
            for o in rv.get("ops", []):
                scan(o)
        t = b.term(i)
        for o in t.get("args", []):
            scan(o)
    return out
