"""C11 No transaction can crash the engine — containment clause: native blueprint code runs only inside the unwind boundary,
after input validation."""
import re
from lib import *

NVM = "<radix_engine::vm::native_vm::NativeVmInstance as radix_engine::vm::vm::VmInvoke>::invoke"
NATIVE_EXPORT = r"^radix_engine::(blueprints|object_modules)::.*::invoke_export$"


def run(ctx):
    F = ctx.F
    ctx.rule("T4: every call to a native package's invoke_export (blueprints::*, object_modules::*) is made from the closure handed to "
             "std::panic::catch_unwind in NativeVmInstance::invoke, or from another native invoke_export (delegation)")
    callers = who_calls(F, NATIVE_EXPORT)
    nsites = sum(len(v) for v in callers.values())
    ctx.floor("native-dispatch-call-sites", nsites, 24)
    check_who_may(ctx, "who-dispatches-native-code", callers, {
        re.escape(NVM) + "$": "the native VM dispatcher (closure inside catch_unwind, checked below)",
        NATIVE_EXPORT: "package -> blueprint delegation from inside native code (already inside the boundary)",
    }, "caller of a native invoke_export")

    ctx.rule("T2/T4 in NativeVmInstance::invoke: the dispatching closure is the argument of catch_unwind and is never called directly; "
             "a caught panic becomes NativeRuntimeError::Trap")
    bodies = ctx.bodies_of(NVM)
    if not bodies:
        ctx.ob("anchor|NativeVmInstance::invoke", False, "not found")
        return
    disp = [b for b in bodies if b.calls(NATIVE_EXPORT)]
    ctx.ob("dispatch-closure|unique", len(disp) == 1 and disp[0].fn.kind == "Closure", f"dispatching bodies: {[b.name for b in disp]}")
    cu = [(b, bb, t) for b in bodies for bb, t in b.calls(r"^std::panic::catch_unwind$")]
    ctx.ob("catch_unwind|present", len(cu) == 1, f"{len(cu)} catch_unwind call(s) in NativeVmInstance::invoke")
    if len(disp) == 1 and len(cu) == 1:
        d = disp[0]
        b, bb, t = cu[0]
        names = origin_names(b, t["args"][0], deep=True)
        ctx.ob("catch_unwind|argument-is-dispatch-closure", f"agg:closure" in names or any(n.startswith("agg:closure") for n in names) and True,
               f"catch_unwind argument originates from {sorted(names)[:5]}", b.loc(bb))
        # the closure aggregate constructed in b is the dispatching closure
        cl_defs = [s["rv"].get("def") for i in range(b.n) for s in b.stmts(i) if s["k"] == "=" and s["rv"]["k"] == "agg" and s["rv"].get("ak") == "closure"]
        ctx.ob("catch_unwind|closure-identity", d.name in cl_defs, f"closures built in the catch_unwind caller: {cl_defs}", b.loc())
        # never invoked directly (outside the boundary)
        direct = [(x.name, tt["f"]) for x in bodies for _, tt in x.calls(None) if tt["f"] == d.name or
                  (re.search(r"ops::function::Fn(Once|Mut)?::call(_once|_mut)?$", tt["f"]) and x.name != d.name and "catch_unwind" not in tt["f"]
                   and any(n == f"agg:closure" for n in origin_names(x, tt["args"][0])))]
        ctx.ob("dispatch-closure|never-called-directly", not direct, f"direct invocations of the dispatching closure: {direct or 'none'}", b.loc())
        # Err arm -> Trap, no re-raise
        trap = any(v.endswith("NativeRuntimeError::Trap") for x in bodies for v in x.fn.vars)
        reraise = [tt["f"] for x in bodies for _, tt in x.calls(r"resume_unwind|panic_any|^core::panicking::panic")]
        ctx.ob("catch_unwind|panic-becomes-trap", trap and not reraise, f"Trap constructed: {trap}; re-raising calls: {reraise or 'none'}", b.loc())
        ctx.sample({"dispatcher": d.name, "native_exports_called": sorted({t2['f'] for _, t2 in d.calls(NATIVE_EXPORT)})[:30]})

    ctx.rule("T2 in System::invoke_upstream: the VM dispatch of a blueprint function is dominated by validate_blueprint_payload on the input; "
             "Ok(output) by validation of the output")
    iu = [n for n in F.fns if re.search(r"system_callback::System as .*KernelCallbackObject>::invoke_upstream$", n)]
    if len(iu) != 1:
        ctx.ob("anchor|invoke_upstream", False, f"candidates: {iu}")
    else:
        b = the_body(ctx, iu[0], r"validate_blueprint_payload$")
        vm = b.calls(r"SystemCallbackObject::invoke$|::vm::Vm.*::invoke$")
        ctx.floor("invoke_upstream|vm-dispatch-sites", len(vm), 2)
        vals = b.calls(r"validate_blueprint_payload$")
        ctx.floor("invoke_upstream|validation-sites", len(vals), 2)
        # the Actor::Function/Method arm: first validate then invoke then validate
        first_vm = min(bb for bb, _ in vm) if vm else None
        # dispatch sites that take caller-provided input are those that are followed by an output validation
        val_blocks = [bb for bb, _ in vals]
        for bb, t in vm:
            after = b.reach(tuple(b.succs(bb)))
            if set(val_blocks) & after:
                ok, wit = b.unreachable_without([bb], [e for g in [G_try(r"validate_blueprint_payload$")] for e in pass_edges(b, g)[0]])
                ctx.ob("invoke_upstream|input-validated-before-dispatch", ok, "blueprint dispatch is reachable only after validate_blueprint_payload(input) succeeded" if ok
                       else f"dispatch reachable without input validation: {b.fmt_path(wit)}", b.loc(bb))
    ctx.note("System::create_receipt deliberately re-panics on SystemError::SystemPanic: panics in system/kernel/track layers crash the executor "
             "by design; only native blueprint panics are contained. Absence of panics there is NOT decided.")
    # evidence only: unprotected panic surface (counts per layer)
    counts = {}
    for f in F.fns.values():
        for layer in ("kernel", "system", "track", "transaction"):
            if f.mod.startswith("radix_engine::" + layer):
                counts[layer] = counts.get(layer, 0) + len(f.asserts) + sum(1 for c in f.calls if re.search(r"::(unwrap|expect)$|^core::panicking::", c[0]))
    ctx.note(f"unprotected panic-capable constructs by layer (inventory, not a verdict): {counts}")
    ctx.rule("contradiction rule (Engler) over the auth-zone proof composition siblings: the proofs of an auth zone are of mixed kinds; "
             "max_amount_locked / max_ids_locked read a proof's ProofRefs field as a typed (non-)fungible proof only behind a test of the proof's "
             "blueprint name, so every other `as_typed(..).unwrap()` on a proof's field in that module must sit behind the same test (or handle "
             "the decode error): an unguarded one panics — the native blueprint traps — on the first proof of the other kind")
    AZC = "radix_engine::blueprints::resource::auth_zone::auth_zone_composition::"
    readers = [n_ for n_, f_ in F.fns.items() if n_.startswith(AZC) and f_.root == n_ and any(c[0].endswith("IndexedScryptoValue::as_typed") for c in f_.calls)]
    ctx.floor("auth-zone-composition|typed-proof-readers", len(readers), 4)
    guarded_n = 0
    for n_ in sorted(readers):
        b = ctx.body(n_)
        unwraps = [bb for bb, t in b.calls(r"Result(<[^>]*>)?::(unwrap|expect)$") if any(x.endswith("::as_typed") for x in origin_names(b, t["args"][0]))]
        if not unwraps:
            ctx.ob(f"auth-zone-composition|{n_.rsplit('::', 1)[1]}|typed-read", True, "decode errors of the proof field are handled (no unwrap)", b.loc())
            continue
        e, bl = [], []
        for bb, tru, fal, si in b.call_bool_guards(r"::eq$"):
            for a in si["atoms"]:
                if a.kind == "call" and a.what.endswith("::eq") and any("PROOF_BLUEPRINT" in x for arg in a.extra["args"][:2] for x in origin_names(b, arg)):
                    e.append((bb, tru)); bl.append(bb)
        ok = bool(bl) and b.unreachable_without(unwraps, e)[0]
        guarded_n += 1 if ok else 0
        ctx.ob(f"auth-zone-composition|{n_.rsplit('::', 1)[1]}|typed-read-behind-blueprint-test", ok,
               "the typed read of the proof's field is behind the blueprint-name test" if ok else
               "a proof's ProofRefs field is decoded as one proof kind and unwrapped WITHOUT testing the proof's blueprint: a proof of the other kind "
               "in the auth zone makes the native AuthZone blueprint trap (its sibling max_*_locked tests the blueprint first)", b.loc(unwraps[0]))
    ctx.floor("auth-zone-composition|guarded-siblings (the belief the rule is inferred from)", guarded_n, 2)
    ctx.rule("T6 over the native entry points that take a caller-chosen Instant (ConsensusManager::compare_current_time_v1/v2) and the "
             "ConsensusManagerBlueprint methods they call: audited panic surface — a caller may pass any i64, so every unwrap/expect/overflow "
             "assert on a value derived from it needs a saturating alternative or an audit line (a panic here is a native trap)")
    CM = "radix_engine::blueprints::consensus_manager::consensus_manager::ConsensusManagerBlueprint"
    entry = [CM + "::compare_current_time_v1", CM + "::compare_current_time_v2"]
    scope_fns = set()
    for e_ in entry:
        if ctx.anchor(e_):
            scope_fns.add(e_)
            for x in ctx.bodies_of(e_):
                for c in x.fn.calls:
                    if c[0].startswith(CM + "::") and c[0] in F.fns:
                        scope_fns.add(F.fns[c[0]].root)
    bodies_t = [x for r_ in sorted(scope_fns) for x in ctx.bodies_of(r_)]
    audited_t = {
        r"ConsensusManagerBlueprint::milli_to_minute$": {"DivisionByZero": (1, "constant divisor MILLIS_IN_MINUTE"), "Overflow(Div)<i64>": (1, "positive constant divisor: i64::MIN / -1 impossible")},
        r"ConsensusManagerBlueprint::epoch_minute_to_instant$": {"Overflow(Mul)<i64>": (1, "i32 widened to i64 times 60 fits i64")},
        r"ConsensusManagerBlueprint::epoch_milli_to_instant$": {"DivisionByZero": (1, "constant divisor"), "Overflow(Div)<i64>": (1, "positive constant divisor")},
    }
    total_t, dis_t, listed_t = check_panic_surface(ctx, "instant-comparison-panic-surface", bodies_t, audited_t, what="caller-chosen Instant path")
    ctx.floor("instant-comparison-panic-surface|functions", len(scope_fns), 3)
    ctx.assume("absence of panics outside the native-VM unwind boundary and of traps inside native blueprints is value-dependent and not decided")
