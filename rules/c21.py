"""C21 SBOR decoding is total, bounded and depth-consistent — bounds guards, allocation caps, shared primitives, audited panic surface."""
import re
from lib import *

D = "sbor::decoder::"
VD = "<sbor::decoder::VecDecoder as sbor::decoder::"
CAP_MAX = 4096


def capped_capacity(b, bb, t):
    """the capacity argument of a with_capacity/reserve call is a constant, or min(len, K)-shaped (every definition is a constant or
    a copy made under `len <= K`), or was already consumed by a successful read_slice(len)"""
    arg = t["args"][-1] if not t["f"].endswith("::reserve") else t["args"][1]
    v = b.const_value(arg)
    if v is not None:
        return v <= 1 << 20, f"constant {v}"
    if arg[0] == "k":
        return False, "non-integer constant"
    loc = arg[1][0]
    defs = [d for d in b.defs(loc) if d[1] == "="]
    if not defs:
        return False, "capacity is a parameter / call result"
    verdicts = []
    for dbb, _, s in defs:
        rv = s["rv"]
        if rv["k"] == "use":
            cv = b.const_value(rv["o"])
            if cv is not None:
                verdicts.append((cv <= CAP_MAX, f"const {cv}"))
                continue
            # copy of `len` under a `len <= K` guard
            src = rv["o"]
            ok = False
            for sb in b.switches():
                si = b.switch_info(sb)
                if not si or si["kind"] != "bool":
                    continue
                for a in si["atoms"]:
                    if a.kind == "bin" and a.what in ("Le", "Lt"):
                        k = b.const_value(a.extra["b"])
                        if k is not None and k <= CAP_MAX and origin_names(b, a.extra["a"]) == origin_names(b, src):
                            if b.unreachable_without([dbb], [(sb, si["true"])])[0]:
                                ok = True
                    if a.kind == "bin" and a.what in ("Gt", "Ge"):
                        k = b.const_value(a.extra["b"])
                        if k is not None and k <= CAP_MAX and origin_names(b, a.extra["a"]) == origin_names(b, src):
                            if b.unreachable_without([dbb], [(sb, si["false"])])[0]:
                                ok = True
            verdicts.append((ok, "copy under len<=K" if ok else "uncapped copy"))
        else:
            verdicts.append((False, rv["k"]))
    if all(v for v, _ in verdicts):
        return True, "min(len, K): " + ", ".join(w for _, w in verdicts)
    # validated by read_slice(len)?
    rs = b.try_guards(r"Decoder::read_slice$|::read_slice$")
    for sb, ps, fs, cbb in rs:
        ct = b.term(cbb)
        if origin_names(b, ct["args"][1]) == origin_names(b, arg) and b.unreachable_without([bb], [(sb, p) for p in ps])[0]:
            return True, "length already consumed by read_slice(len)? (checked against the remaining input)"
    return False, "; ".join(w for _, w in verdicts)


def run(ctx):
    F = ctx.F
    ctx.level = "other"
    ctx.explanation = ("Bounds and allocation rules are exact dominance rules (T2); the remaining panic-capable constructs of the VecDecoder are "
                       "compared with an audited multiset (T6), each entry with its reason. Depth accounting agreement between decoder, traverser "
                       "and encoder is value-level and NOT decided.")
    ctx.rule("T2: every index / slice of VecDecoder.input in read_byte, peek_byte and read_slice_from_payload is dominated by require_remaining(n)?; "
             "require_remaining rejects when remaining < n")
    for fn, tr in (("read_byte", "Decoder"), ("peek_byte", "Decoder"), ("read_slice_from_payload", "BorrowingDecoder")):
        n = f"{VD}{tr}>::{fn}"
        if ctx.anchor(n):
            b = ctx.body(n)
            sites = [bb for k, bb, d in panic_sites(b) if k == "BoundsCheck" or k.startswith("index:")]
            check_guarded(ctx, f"{fn}|bounds", b, sites, [G_try(r"VecDecoder::require_remaining$")], "access to self.input")
    n = D + "VecDecoder::require_remaining"
    if ctx.anchor(n):
        b = ctx.body(n)
        g = [sb for sb in b.switches() if any(a.kind == "bin" and a.what in ("Lt", "Gt", "Le", "Ge") for a in b.switch_info(sb)["atoms"])]
        ok = bool(g) and any(doomed(b, s) for x in g for s in b.succs(x)) and any(v.endswith("DecodeError::BufferUnderflow") for v in b.fn.vars)
        ctx.ob("require_remaining|rejects-underflow", ok, "comparison of remaining_bytes() with n has a BufferUnderflow arm", b.loc())
        for sb in g:
            names = origin_names(b, b.term(sb)["o"], deep=True)
            ctx.ob("require_remaining|compares-with-n", "param:2" in names and any("remaining_bytes" in x for x in names), f"comparison operands: {sorted(names)}", b.loc(sb))

    ctx.rule("T2 allocation cap: every with_capacity/reserve inside a Decode impl or the Value decoder takes a constant, a min(len, K<=4096)-shaped "
             "value, or a length already validated by read_slice(len)?")
    n_sites = 0
    for f in F.fns.values():
        is_dec = (f.timpl and f.timpl[0].startswith("sbor::decode::Decode")) or (f.crate == "sbor" and re.search(r"sbor::(value|codec::)", f.mod) and re.search(r"decode", f.name))
        if not is_dec or f.crate not in ("sbor", "radix_common", "radix_engine_interface", "radix_transactions", "radix_rust"):
            continue
        if not any(re.search(r"with_capacity|::reserve(_exact)?$", c[0]) for c in f.calls):
            continue
        b = ctx.body(f.name)
        for bb, t in b.calls(r"with_capacity(_and_hasher)?$|::reserve(_exact)?$"):
            if t["exp"] and "derive" in f.name:
                continue
            n_sites += 1
            ok, how = capped_capacity(b, bb, t)
            short = re.sub(r"^.*?([A-Za-z0-9_:<>, ]{1,60})$", r"\1", f.name)
            ctx.ob(f"alloc-cap|{f.mod}|{f.name[-60:]}", ok, f"{t['f'].split('::')[-1]} in {f.name}: {how}", b.loc(bb))
            if ok:
                ctx.sample({"fn": f.name, "alloc": t["f"], "discharge": how})
    ctx.floor("alloc-cap-sites", n_sites, 10)

    ctx.rule("T4: the untyped/typed traversers read input only through the VecDecoder primitives (size/kind canonicality shared by construction)")
    bad = []
    n_tr = 0
    for f in F.fns.values():
        if f.mod.startswith("sbor::traversal"):
            n_tr += 1
            if any(x.endswith("VecDecoder.input") or x.endswith("VecDecoder.offset") for x in f.fr + f.fw):
                bad.append(f.name)
    ctx.floor("traverser-fns", n_tr, 40)
    ctx.ob("traverser|no-raw-input-access", not bad, f"traversal functions touching VecDecoder.input/offset directly: {bad or 'none'}")
    uses = who_calls(F, r"Decoder::(read_size|read_value_kind|read_byte|read_discriminator|read_slice)$", scope=lambda f: f.mod.startswith("sbor::traversal"))
    ctx.floor("traverser|uses-decoder-primitives", len(uses), 2)

    ctx.rule("T6: audited panic surface of sbor::decoder (after the bounds rules above)")
    audited = {
        r"BorrowingDecoder>::read_slice_from_payload$": {"Overflow(Add)<usize>": (2, "offset + n after require_remaining(n): offset + n <= len <= isize::MAX")},
        r"Decoder>::read_byte$": {"Overflow(Add)<usize>": (1, "offset + 1 after require_remaining(1)")},
        r"Decoder>::peek_remaining$": {"index:[T][range]": (1, "input[offset..]: offset <= len is a VecDecoder invariant (offset only advances after require_remaining)")},
        r"Decoder::read_size$": {"Overflow(Shl)<usize>": (1, "shift < 28 enforced by the loop guard"), "Overflow(Add)<i32>": (1, "shift += 7 with shift < 28")},
        r"VecDecoder::remaining_bytes$": {"Overflow(Sub)<usize>": (1, "len - offset: offset <= len invariant")},
        r"VecDecoder::track_stack_depth_decrease$": {"Overflow(Sub)<usize>": (1, "paired with a preceding increase in decode_deeper_body_with_value_kind")},
        r"VecDecoder::track_stack_depth_increase$": {"Overflow(Add)<usize>": (1, "depth bounded by max_depth check right after")},
    }
    bodies = [ctx.body(nm) for nm in F.fns if re.match(r"^(<)?sbor::decoder::(VecDecoder|Decoder)", nm)]
    def discharged(b, kind, bb, t):
        # bounds/index sites are decided by the T2 rule above
        if (kind == "BoundsCheck" or kind.startswith("index:")) and re.search(r"(read_byte|peek_byte|read_slice_from_payload)$", b.name):
            e, bl = pass_edges(b, G_try(r"VecDecoder::require_remaining$"))
            return bool(bl) and b.unreachable_without([bb], e)[0]
        return False
    total, dis, listed = check_panic_surface(ctx, "panic-surface", bodies, audited, discharge=discharged, what="sbor decoder")
    ctx.ob("panic-surface|enumerated", total >= 10, f"{total} panic-capable construct(s) in sbor::decoder, {dis} discharged by dominance, {listed} within the audited table")
    ctx.rule("T6: audited panic surface of sbor::traversal (untyped + typed traversers)")
    audited_tr = {
        r"path_formatting::PathAnnotate::format_path$": {"Result::unwrap": (1, "fmt::Write into a String cannot fail")},
        r"typed_traverser::TypedTraverserState::get_type_id$": {"Option::unwrap": (4, "container_stack non-empty whenever the latest ancestor is a container child"), "RemainderByZero": (1, "% 2 (constant)")},
        r"typed_traverser::TypedTraverserState::map_container_end_event$": {"Option::unwrap": (1, "an end event always follows its start event (stack push)")},
        r"typed_traverser::traverse_partial_payload_with_types$": {"Overflow(Sub)<usize>": (1, "API precondition current_depth <= depth_limit (callers pass the decoder's own depth)")},
        r"untyped::events::ContainerHeader::get_child_count$": {"Overflow(Mul)<usize>": (1, "map length <= 2^28-1 (read_size bound)")},
        r"untyped::traverser::VecTraverser::step$": {"Option::unwrap": (2, "parent pushed just before / has just been read"), "Overflow(Sub)<usize>": (1, "array_length >= 1 on the ReadFirstChild action"),
                                                     "Overflow(Add)<usize>": (1, "child index < child count <= 2^29"), "panic": (3, "API misuse panics after an error/end event; unreachable placeholder")},
        r"untyped::traverser::calculate_value_tree_body_byte_length$": {"Overflow(Sub)<usize>": (1, "API precondition current_depth <= depth_limit")},
    }
    tb = [ctx.body(nm) for nm in F.fns if re.match(r"^(<)?sbor::traversal::", nm) and not re.search(r" as (core::fmt|core::clone|core::cmp)", nm)
          and (F.fns[nm].asserts or any(re.search(r"unwrap|expect|panick|::index", c[0]) for c in F.fns[nm].calls))]
    t2, d2, l2 = check_panic_surface(ctx, "traversal-panic-surface", tb, audited_tr, what="sbor traversal")
    ctx.ob("traversal-panic-surface|enumerated", t2 >= 12, f"{t2} panic-capable construct(s) in sbor::traversal, {l2} within the audited table")
    ctx.rule("T2 (from the descent): in VecTraverser::step, once a container has been pushed onto the ancestor path, every read of child content "
             "(ActionHandler::read_value / read_byte_array) is behind the `ancestor_path.len() >= config.max_depth` == false edge — the byte-array "
             "batch read included, so the traverser rejects exactly the depths the value decoder and encoder reject")
    n = "sbor::traversal::untyped::traverser::VecTraverser::step"
    if ctx.anchor(n):
        b = ctx.body(n)
        pushes = [bb for bb, t in b.calls(r"alloc::vec::Vec(<[^>]*>)?::push$") if origin_names(b, t["args"][0]) == {"param:4"}]
        ctx.ob("traverser-depth|descent-site", len(pushes) == 1, f"{len(pushes)} push(es) onto the ancestor path", b.loc())
        for pb in pushes[:1]:
            start = b.term(pb)["t"]
            region = b.reach((start,))
            reads = [bb for bb in call_blocks(b, r"ActionHandler(<[^>]*>)?::(read_value|read_byte_array)$") if bb in region]
            ctx.ob("traverser-depth|child-reads-after-descent", len(reads) >= 2, f"{len(reads)} child-content read(s) reachable after the push (value and byte-array batch)", b.loc(pb))
            g = G_bin("Ge", [r"Vec(<[^>]*>)?::len$"], [r"^param:2$"], "ancestor_path.len() >= config.max_depth is false", False)
            edges, blocks = pass_edges(b, g)
            blocks = [x for x in blocks if any(a.proj[-1:] == (".max_depth",) for a in b.origins(b.term(x)["o"], deep=True))]
            edges = [(x, y) for x, y in edges if x in blocks]
            ok, wit = (False, None)
            if blocks:
                ok, wit = b.unreachable_without(reads, edges, start)
            ctx.ob("traverser-depth|every-child-read-behind-depth-test", bool(blocks) and ok,
                   f"depth test at bb{blocks} dominates every child read after the descent" if ok else
                   ("no depth test against config.max_depth found" if not blocks else f"a child read is reachable WITHOUT the depth test: {b.fmt_path(wit)}"),
                   b.loc(wit[-1]) if wit else b.loc(pb))
    ctx.assume("agreement of the depth accounting between decoder, traverser and encoder beyond 'every descent is depth-tested' (the off-by-one itself) is value-level and not decided")
