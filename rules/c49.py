"""C49 Execution limits are enforced exactly — liveness of every limit + wiring of the limits module (T7/T2)."""
import re
from lib import *
from c02 import flagconst_guard

LM = "radix_engine::system::system_modules::limits::module::"
MIX = "radix_engine::system::system_modules::module_mixer::SystemModuleMixer"
SCOPE = r"^(<)?radix_engine::system::system_modules::"
FIELDS = ["max_call_depth", "max_heap_substate_total_bytes", "max_track_substate_total_bytes", "max_substate_key_size", "max_substate_value_size",
          "max_invoke_payload_size", "max_event_size", "max_log_size", "max_panic_message_size", "max_number_of_logs", "max_number_of_events"]


def run(ctx):
    F = ctx.F
    ctx.rule("T7: every TransactionLimitsConfig field is read by a system-module function in which a branch depending on it has a rejecting "
             "arm; every TransactionLimitsError variant is constructed under a branch")
    for f in FIELDS:
        check_limit_enforced(ctx, "limit", LM + "TransactionLimitsConfig", f, SCOPE)
    fields = set(struct_fields(ctx, LM + "TransactionLimitsConfig"))
    ctx.ob("limits-config|all-fields-classified", bool(fields) and fields <= set(FIELDS),
           f"TransactionLimitsConfig fields without an enforcement rule: {sorted(fields - set(FIELDS))}")
    check_variants_live(ctx, "TransactionLimitsError", LM + "TransactionLimitsError", SCOPE)

    ctx.rule("T2 wiring: every LimitsModule system-module hook is invoked by the SystemModuleMixer callback of the same name, on the "
             "enabled_modules.contains(LIMITS) arm; add_log / add_event / set_panic_message compare against the limits on the LIMITS arm")
    hooks = sorted(n for n in F.fns if n.startswith("<" + LM + "LimitsModule as radix_engine::system::module::SystemModule>::") and F.fns[n].kind == "AssocFn")
    ctx.floor("limits-hooks", len(hooks), 12)
    for h in hooks:
        name = h.rsplit("::", 1)[-1]
        m = MIX + "::" + name
        cand = [n for n in F.fns if n == m or n.endswith("SystemModuleMixer as radix_engine::system::module::SystemModule>::" + name)]
        done = False
        for c in cand:
            for b in ctx.bodies_of(c):
                sites = call_blocks(b, re.escape(h) + "$")
                if sites:
                    done = True
                    check_guarded(ctx, f"wiring|{name}", b, sites,
                                  [G_custom(lambda body: flagconst_guard(body, "EnabledModules", "LIMITS", True), "enabled_modules.contains(LIMITS)")],
                                  f"LimitsModule::{name}")
        if not done:
            ctx.ob(f"wiring|{name}", False, f"no SystemModuleMixer::{name} calls LimitsModule::{name}: the limit hook is not wired")
    # the mixer hook must itself be reached from the kernel callback of the same name
    for name in ("on_open_substate", "on_write_substate", "before_invoke", "on_create_node"):
        callers = who_calls(F, re.escape(MIX) + "::" + name + "$")
        ctx.ob(f"mixer-hook-called|{name}", len(callers) >= 1, f"SystemModuleMixer::{name} has {len(callers)} caller(s)")
    for fn in ("add_log", "add_event_unchecked", "assert_can_add_event", "set_panic_message"):
        n = MIX + "::" + fn
        if ctx.anchor(n):
            b = ctx.body(n)
            errs = [s for v in ("TooManyLogs", "LogSizeTooLarge", "TooManyEvents", "EventSizeTooLarge", "PanicMessageSizeTooLarge")
                    for s in agg_blocks(b, re.escape(LM) + "TransactionLimitsError$", v)]
            ctx.ob(f"{fn}|rejects", len(errs) >= 1 and all(doomed(b, s) for s in errs), f"{len(errs)} limit rejection site(s), all doomed", b.loc())
    n = MIX + "::add_event"
    cand = [x for x in F.fns if x.endswith("SystemModuleMixer::add_event")]
    for c in cand:
        b = ctx.body(c)
        ok = bool(b.calls(r"SystemModuleMixer::assert_can_add_event$")) and bool(b.calls(r"SystemModuleMixer::add_event_unchecked$"))
        if ok:
            check_guarded(ctx, "add_event|count-check-first", b, call_blocks(b, r"SystemModuleMixer::add_event_unchecked$"),
                          [G_try(r"SystemModuleMixer::assert_can_add_event$")], "add_event_unchecked")
        else:
            ctx.ob("add_event|count-check-first", False, "add_event does not call assert_can_add_event + add_event_unchecked", b.loc())
    ctx.rule("T4 + T3 pairing across two sites: add_event_unchecked is called only by the checked wrapper and by SystemCostingApi::lock_fee; "
             "lock_fee's unchecked add is covered by a reservation in start_lock_fee — every path of start_lock_fee to Ok passes "
             "assert_can_add_event()? or emits through the checked path (emit_event_internal)")
    unchecked = who_calls(F, r"SystemModuleMixer::add_event_unchecked$")
    check_who_may(ctx, "who-adds-events-unchecked", unchecked, {
        r"SystemModuleMixer::checked_add_event$": "the checked wrapper (assert_can_add_event first)",
        r"SystemCostingApi<[^>]*>>::lock_fee$": "LockFeeEvent after the force-written vault take; the slot is reserved by start_lock_fee (checked below)",
    }, "caller of add_event_unchecked")
    ctx.floor("who-adds-events-unchecked", len(unchecked), 2)
    sl = [x for x in F.fns if re.search(r"SystemCostingApi<[^>]*>>::start_lock_fee$", x)]
    ctx.ob("start_lock_fee|anchor", len(sl) == 1, f"start_lock_fee impls: {len(sl)}")
    for x in sl[:1]:
        b = the_body(ctx, x, r"::apply_execution_cost$")      # (#[trace_resources] moves the body into a closure)
        if b is None:
            ctx.ob("start_lock_fee|reserves-the-event-slot", False, "body with the up-front costing not found")
            continue
        oks = b.ok_exits()
        tg = b.try_guards(r"SystemModuleMixer::assert_can_add_event$")
        pe = [(sb, p) for sb, ps, fs, cbb in tg for p in ps]
        emit = call_blocks(b, r"::emit_event_internal$")
        region = b.reach((0,), blocked_edges=pe, blocked_blocks=emit)
        ok = bool(oks) and bool(pe) and not (region & set(oks))
        ctx.ob("start_lock_fee|reserves-the-event-slot", ok,
               "every path to Ok reserves the LockFeeEvent slot (assert_can_add_event) or emits through the checked path" if ok else
               "a path to Ok neither reserves the event slot nor emits through the checked path: lock_fee's unchecked LockFeeEvent can exceed max_number_of_events",
               b.loc())
    ctx.assume("boundary exactness (> vs >=) is value-level and not decided")
