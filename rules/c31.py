"""C31 The manifest compiler never crashes — audited panic surface of lexer / parser / generator / diagnostics (T6)."""
import re
from lib import *

M = "radix_transactions::manifest::"
SCOPE = r"^(<)?radix_transactions::manifest::(lexer|parser|token|compiler|diagnostic_snippets|generator|blob_provider)::"
AUDITED = {
    r"diagnostic_snippets::create_snippet$": {
        "Overflow(Sub)<usize>": (3, "line_number()-5 behind `> 5`; annotation indices minus skipped_chars: skipped lines precede the span and are counted with their real terminators (see line-iterator rule)"),
        "Overflow(Add)<usize>": (7, "line counters / char counts bounded by the source length"),
    },
    r"lexer::Lexer::peek$": {"index:alloc::vec::Vec": (1, "text[full_index] behind the is-eof test")},
    r"lexer::Lexer::read_utf16_unit$": {"Option::unwrap": (1, "to_digit(16) after is_ascii_hexdigit"), "Overflow(Mul)<u32>": (1, "4 hex digits < 2^16"), "Overflow(Add)<u32>": (1, "4 hex digits < 2^16")},
    r"lexer::Lexer::tokenize_string$": {"panic": (1, "assert_eq!(advance, '\"') — only called after peek() == '\"'"), "Overflow(Shl)<u32>": (1, "(u - 0xD800) <= 0x7FF, << 10 fits"),
                                        "Overflow(Add)<u32>": (2, "surrogate arithmetic < 2^22"), "Overflow(Sub)<u32>": (2, "u in D800..=DFFF; 0x10000 + x + unit >= 0xDC00")},
    r"parser::Parser::advance$": {"Overflow(Add)<usize>": (1, "token cursor bounded by token count")},
    r"parser::Parser::parse_array_content$": {"index:alloc::vec::Vec": (1, "generics[0] after parse_generics(1) returned Ok (len == 1)")},
    r"parser::Parser::parse_map_content$": {"index:alloc::vec::Vec": (2, "generics[0..1] after parse_generics(2) returned Ok (len == 2)")},
    r"parser::Parser::parse_generics$": {"index:alloc::vec::Vec": (2, "behind !value_kinds.is_empty()"), "Overflow(Sub)<usize>": (1, "len()-1 behind !is_empty()")},
    r"parser::Parser::parse_instruction_arguments$": {"Overflow(Add)<usize>": (1, "stack depth bounded by PARSER_MAX_DEPTH")},
    r"parser::Parser::parse_values_one$": {"index:alloc::vec::Vec": (1, "values[0] in the `1 =>` arm of a match on len()")},
    r"parser::Parser::peek$": {"Overflow(Sub)<usize>": (1, "current-1 at EOF: parse_manifest only peeks after is_eof() was false, so current >= 1 or tokens non-empty"),
                               "index:alloc::vec::Vec": (1, "tokens[current-1]: same invariant")},
    r"parser::Parser::track_stack_depth_decrease$": {"Overflow(Sub)<usize>": (1, "paired with a preceding increase")},
    r"parser::Parser::track_stack_depth_increase$": {"Overflow(Add)<usize>": (1, "bounded by max depth check")},
    r"token::Position::advance$": {"Overflow(Add)<usize>": (3, "position counters bounded by source length")},
    r"token::Position::line_number$": {"Overflow(Add)<usize>": (1, "line_idx + 1 bounded by source length")},
    r"generator::generate_instruction::\{closure#\d+\}$": {"Option::unwrap": (2, "get_span!: get(0)/get(len-1) behind !is_empty()"), "Overflow(Sub)<usize>": (1, "get_span!: len()-1 behind !is_empty()")},
    r"generator::generate_pseudo_instructions$": {"panic": (2, "unreachable! after peek verified the instruction kind")},
    r"generator::generate_static_address$": {"Result::unwrap": (1, "Vec -> [u8; NodeId::LENGTH] behind len() == NodeId::LENGTH")},
}


def run(ctx):
    F = ctx.F
    ctx.level = "other"
    ctx.explanation = ("Audited panic surface (T6): every panic-capable MIR construct in the manifest lexer, parser, generator, compiler glue and "
                       "diagnostic snippet builder is enumerated and must be discharged by a local dominance rule or match an audited multiset entry "
                       "(function, kind, max count, reason). A new panic-capable construct in these modules is reported. Parsers called from the "
                       "generator that live elsewhere (Decimal/PreciseDecimal::from_str, NonFungibleLocalId::from_str [C28], address decoding [C28], "
                       "hex, annotate-snippets' renderer) are outside this table and NOT decided here.")
    ctx.rule("T6: audited panic surface over manifest::{lexer,parser,token,compiler,diagnostic_snippets,generator,blob_provider}")
    names = [n for n in F.fns if re.search(SCOPE, n) and not re.search(r" as (core::fmt|sbor::|core::clone|core::cmp|core::hash)", n)]
    ctx.floor("scope-functions", len(names), 150)
    bodies = [ctx.body(n) for n in names if F.fns[n].asserts or any(True for c in F.fns[n].calls if re.search(r"unwrap|expect|panick|index|split_at|copy_from_slice|::remove$|::insert$|RefCell", c[0]))]
    total, dis, listed = check_panic_surface(ctx, "panic-surface", bodies, AUDITED, what="manifest compiler")
    ctx.ob("panic-surface|enumerated", total >= 40, f"{total} panic-capable construct(s) in scope: {dis} discharged by dominance rules, {listed} within the audited table")
    ctx.sample({"functions_in_scope": len(names), "panic_capable_sites": total, "discharged": dis, "audited": listed})

    ctx.rule("repaired invariant (fixed finding): create_snippet iterates the source with a terminator-preserving splitter, so the snippet buffer and "
             "the skipped-char count stay aligned with Span's char indices for any mix of line endings")
    n = M + "diagnostic_snippets::create_snippet"
    if ctx.anchor(n):
        b = ctx.body(n)
        drops = b.calls(r"(str|<impl str>)::lines$")
        keeps = b.calls(r"(str|<impl str>)::split_inclusive$")
        # lines() may still be used for counting lines; the loop that builds `source`/`skipped_chars` must be fed by split_inclusive
        feeding = []
        for bb, t in b.calls(r"String::push_str$"):
            feeding += sorted(origin_names(b, t["args"][1], deep=True))
        ok = bool(keeps) and any("split_inclusive" in x or "SplitInclusive" in x for x in feeding) and not any(re.search(r"str::(iter::)?Lines|::lines$", x) for x in feeding)
        ctx.ob("create_snippet|line-iterator-keeps-terminators", ok,
               "the snippet buffer is built from split_inclusive('\\n') pieces" if ok else
               "the snippet buffer is built from str::lines() (terminators dropped): char indices drift on \\r\\n sources and the renderer panics", b.loc())
        # every create_snippet caller passes the same source text it compiled
        callers = who_calls(F, re.escape(n) + "$")
        ctx.floor("create_snippet|callers", len(callers), 3)
    ctx.rule("compile entry points are total functions of their input: compile_manifest returns the lexer/parser/generator errors as values")
    cm = [x for x in F.fns if re.match(re.escape(M) + r"compiler::compile_manifest$", x)]
    for c in cm:
        b = ctx.body(c)
        for step in (r"lexer::tokenize$", r"parser::Parser::new$", r"Parser::parse_manifest$", r"generator::generate_manifest$"):
            tail = any(k.startswith("call:") and "map_err" in k for _, k in b.ret_assignments()) and bool(b.calls(step))
            ctx.ob(f"compile_manifest|{step.split('::')[-1].rstrip('$')}-error-propagated", bool(b.try_guards(step)) or tail,
                   f"`{step.rstrip('$')}(..)?` (or tail `.map_err(..)`) present", b.loc())
    ctx.rule("unit agreement in create_snippet: spans are Unicode-char indices, so the amount subtracted from the annotation indices "
             "(the characters skipped before the context window) is accumulated from `chars().count()` — a byte length (`str::len`) over-counts "
             "non-ASCII lines and makes the subtraction underflow")
    cs = [x for x in F.fns if x.endswith("diagnostic_snippets::create_snippet")]
    for x in cs[:1]:
        b = ctx.body(x)
        acc = []
        for i in range(b.n):
            t = b.term(i)
            if t["k"] == "assert" and t["ak"].startswith("Overflow(Add)"):
                o_b = {y.rsplit("::", 1)[-1] for y in origin_names(b, t["b"])}
                o_a = {y.rsplit("::", 1)[-1] for y in origin_names(b, t["a"])}
                # the accumulation `skipped += <per-line amount>` (left operand is the running sum)
                if any(y.startswith("bin:Add") or y == "AddWithOverflow" for y in o_a) or "bin:AddWithOverflow" in {z for z in origin_names(b, t["a"])}:
                    acc.append((i, sorted(o_b)))
        ctx.ob("create_snippet|skipped-accumulation-found", len(acc) >= 1, f"running-sum additions: {acc}", b.loc())
        bad = [(i, o) for i, o in acc if not (o == ["count"] or o == ["const:1"] or all(z.startswith("const:") for z in o))]
        ctx.ob("create_snippet|skipped-counted-in-chars", bool(acc) and not bad,
               "every per-line amount added to the running count of skipped characters is a chars().count()" if acc and not bad else
               f"a per-line amount that is not a char count is added to the skipped-characters sum: {bad}", b.loc(bad[0][0]) if bad else b.loc())
    ctx.assume("determinism ('same answer every time') rides on C01's scope; panics inside external crates (annotate-snippets, bech32, hex) and in "
               "the decimal / id parsers of radix-common are not decided by this table")
