"""C51 Locked state stays locked forever — open-time status guard, write-handle discipline, no-bypass table."""
import re
from lib import *
from c13 import flag_guard

SYS = "radix_engine::system::system::SystemService"
CB = "radix_engine::system::system_callback"
SUB = "radix_engine::system::system_substates"


def sysfn(F, name):
    """root item of SystemService method `name` (inherent or trait impl)"""
    r = re.compile(r"^(<" + re.escape(SYS) + r" as [^>]*(<[^>]*>)?>|" + re.escape(SYS) + r")::" + re.escape(name) + "$")
    hits = [n for n in F.fns if r.match(n)]
    return hits[0] if len(hits) == 1 else None


OPENERS = {
    "actor_open_field": ("FieldLockData", "Write"),
    "key_value_store_open_entry": ("KeyValueEntryLockData", "KVStoreWrite"),
    "actor_open_key_value_entry": ("KeyValueEntryLockData", "KVCollectionWrite"),
}


def status_guard(body):
    """pass edges of a lock-status test: `LockStatus` match (Unlocked edge) or `is_locked()` == false"""
    edges, blocks = [], []
    for bb, ed, ow, si in body.enum_guards(re.escape(SUB) + r"::LockStatus$"):
        listed = set(ed)
        if "Unlocked" in ed:
            edges.append((bb, ed["Unlocked"]))
        elif ow is not None:
            edges.append((bb, ow))
        blocks.append(bb)
    for bb, tru, fal, si in body.call_bool_guards(r"(KeyValueEntrySubstate|FieldSubstate)::is_locked$"):
        edges.append((bb, fal))
        blocks.append(bb)
    return edges, blocks


def run(ctx):
    F = ctx.F
    ctx.rule("T2 (restricted to flags.contains(MUTABLE)==true): in each of the three openers every path to Ok(handle) "
             "passes a lock-status test whose Locked arm cannot reach Ok")
    ctx.rule("T2: write lock data (FieldLockData::Write, KVStoreWrite, KVCollectionWrite) is constructed only on the MUTABLE arm")
    for name, (en, var) in OPENERS.items():
        root = sysfn(F, name)
        if not root:
            ctx.ob(f"anchor|{name}", False, f"SystemService::{name} not found")
            continue
        b = the_body(ctx, root, r"kernel_open_substate")
        if b is None:
            ctx.ob(f"anchor|{name}|open-call", False, f"no kernel_open_substate* call in SystemService::{name}")
            continue
        mut_false, mblocks = flag_guard(b, "MUTABLE", False)
        st_edges, sblocks = status_guard(b)
        oks = b.ok_exits()
        ok = bool(oks) and bool(sblocks) and bool(mblocks)
        wit = None
        if ok:
            good, wit = b.unreachable_without(oks, mut_false + st_edges)
            ok = good
        ctx.ob(f"{name}|status-guard-before-ok", ok,
               f"SystemService::{name}: with MUTABLE set, Ok(handle) " + (
                   f"is reachable only through the lock-status test at bb{sblocks}" if ok else
                   f"is reachable WITHOUT a lock-status test: {b.fmt_path(wit) if wit else 'no status/MUTABLE guard found'}"),
               b.loc(wit[-1]) if wit else b.loc())
        if ok:
            ctx.sample({"fn": b.name, "rule": "T2 predicate-restricted guard", "ok_exits": oks, "status_guards": sblocks,
                        "mutable_tests": mblocks})
        # the status test must read the substate that was just opened: its origin includes kernel_read_substate
        reads = b.calls(r"kernel_read_substate$")
        ctx.ob(f"{name}|status-read", len(reads) >= 1, f"lock status is read from the opened substate ({len(reads)} kernel_read_substate call(s))", b.loc())
        # the locked arm is doomed
        for e, blk in ((st_edges, sblocks),):
            passing = set(e)
            for sb in blk:
                for s in b.succs(sb):
                    if (sb, s) not in passing:
                        r = b.reach((s,))
                        ctx.ob(f"{name}|locked-arm-doomed", not (r & set(oks)),
                               f"the Locked arm of the status test at bb{sb} cannot reach Ok(handle)", b.loc(sb))
        # write lock data only under MUTABLE
        targets = agg_blocks(b, en + "$", var)
        check_guarded(ctx, f"{name}|write-lockdata-under-MUTABLE", b, targets,
                      [G_custom(lambda body: flag_guard(body, "MUTABLE", True), "flags.contains(MUTABLE) == true")],
                      f"construction of {en}::{var}")

    ctx.rule("T4: write lock-data variants are constructed only by the three openers")
    ctors = {}
    for f in F.fns.values():
        for v in f.vars:
            if re.search(r"system_callback::(FieldLockData::Write|KeyValueEntryLockData::(KVStoreWrite|KVCollectionWrite))$", v):
                ctors.setdefault(f.root, []).append(v)
    allowed = {("::" + n + "$"): "opener" for n in OPENERS}
    allowed[r"^<radix_engine::system::system_callback::(FieldLockData|KeyValueEntryLockData) as core::clone::Clone>::clone$"] = "derived Clone of the lock data"
    check_who_may(ctx, "who-constructs-write-lockdata", ctors, allowed, "constructor of a write lock-data variant")
    ctx.floor("who-constructs-write-lockdata", len(ctors), 3)

    ctx.rule("T2: every kernel_write_substate in a SystemService write API is dominated by a match on the handle's lock data "
             "with a write variant (or is_kv_entry_with_write() == true)")
    WRITERS = {
        "field_write": [G_enum(r"FieldLockData$", ["Write"])],
        "field_lock": [G_enum(r"FieldLockData$", ["Write"])],
        "key_value_entry_set": [G_enum(r"KeyValueEntryLockData$", ["KVStoreWrite", "KVCollectionWrite"])],
        "key_value_entry_lock": [G_enum(r"KeyValueEntryLockData$", ["KVStoreWrite", "KVCollectionWrite"])],
        "key_value_entry_remove": [G_bool_call(r"SystemLockData::is_kv_entry_with_write$", True)],
    }
    for name, guards in WRITERS.items():
        root = sysfn(F, name)
        if not root:
            ctx.ob(f"anchor|{name}", False, f"SystemService::{name} not found")
            continue
        b = the_body(ctx, root, r"kernel_write_substate$")
        if b is None:
            ctx.ob(f"anchor|{name}|write-call", False, f"no kernel_write_substate call in SystemService::{name}")
            continue
        check_guarded(ctx, f"{name}|write-handle", b, call_blocks(b, r"kernel_write_substate$"), guards,
                      f"kernel_write_substate in SystemService::{name}")
    if ctx.anchor(CB + "::SystemLockData::is_kv_entry_with_write"):
        b = ctx.body(CB + "::SystemLockData::is_kv_entry_with_write")
        # returns true only for the two write variants: every `true` assignment is behind KVStoreWrite|KVCollectionWrite
        trues = []
        for bb, kind, s in b.defs(0):
            if kind == "=" and s["rv"]["k"] == "use" and s["rv"]["o"][0] == "k" and s["rv"]["o"][1].get("v") == "1":
                trues.append(bb)
        check_guarded(ctx, "is_kv_entry_with_write|true-only-for-write", b, trues,
                      [G_enum(r"KeyValueEntryLockData$", ["KVStoreWrite", "KVCollectionWrite"])], "`true` result")

    ctx.rule("argument origin: the internal remove-and-close helper (which writes without re-checking the handle kind) is only given handles "
             "obtained from the status-checking openers")
    helper = sysfn(F, "key_value_entry_remove_and_close_substate")
    if helper:
        hc = who_calls(F, re.escape(helper) + "$")
        ctx.floor("remove_and_close|callers", len(hc), 2)
        for root in sorted(hc):
            for b in ctx.bodies_of(root):
                for bb, t in b.calls(re.escape(helper) + "$"):
                    names = origin_names(b, t["args"][1])
                    ok = bool(names) and all(re.search(r"^call:.*>::(actor_open_key_value_entry|key_value_store_open_entry)$", n) for n in names)
                    ctx.ob(f"remove_and_close|handle-from-checked-opener|{root.rsplit('::',1)[1]}", ok,
                           f"handle passed to key_value_entry_remove_and_close_substate originates from {sorted(n.split('::')[-1] for n in names)}", b.loc(bb))
    else:
        ctx.ob("anchor|key_value_entry_remove_and_close_substate", False, "helper not found")
    # no second (unchecked) opener: every SystemService function that opens a substate with caller-supplied flags and returns the handle is one of the three openers
    opens = who_calls(F, r"kernel_api::KernelSubstateApi(<[^>]*>)?(>)?::kernel_open_substate(_with_default)?$")
    for root in sorted(opens):
        if not (root.startswith("<" + SYS) or root.startswith(SYS)):
            continue
        name = root.rsplit("::", 1)[-1]
        if name in OPENERS or name.startswith("kernel_"):
            continue
        for b in ctx.bodies_of(root):
            for bb, t in b.calls(r"kernel_open_substate(_with_default)?$"):
                fl = origin_names(b, t["args"][4])
                caller_flags = any(n.startswith("param:") for n in fl)
                ctx.ob(f"opener-classified|{name}", not caller_flags,
                       f"SystemService::{name} opens a substate with flags {sorted(fl)}" + (" supplied by its caller: a fourth opener needs the lock-status rule" if caller_flags else " (engine-chosen constant)"), b.loc(bb))

    ctx.rule("T4 (no bypass): kernel substate mutators are called directly only from the audited modules")
    callers = who_calls(F, r"kernel_api::KernelSubstateApi(<[^>]*>)?(>)?::kernel_(write_substate|set_substate|remove_substate|drain_substates)$")
    check_who_may(ctx, "who-calls-kernel-mutators", callers, {
        r"^radix_engine::system::system$": "SystemService write APIs (guarded above) and thin forwarding impls",
        r"^radix_engine::system::system_modules::auth::auth_module$": "auth-zone teardown: engine-internal transient object no user can lock",
        r"^radix_engine::blueprints::resource::worktop$": "worktop drop: engine-internal transient object no user can lock",
    }, "direct caller of a kernel substate mutator", granularity="mod")
    ctx.floor("who-calls-kernel-mutators", len(callers), 15)
    io_callers = who_calls(F, r"kernel::substate_io::SubstateIO::(write_substate|set_substate|remove_substate|drain_substates)$")
    check_who_may(ctx, "who-calls-substate-io-mutators", io_callers, {
        r"^radix_engine::kernel::(kernel|call_frame)$": "the kernel itself",
    }, "direct caller of a SubstateIO mutator", granularity="mod")
    ctx.floor("who-calls-substate-io-mutators", len(io_callers), 3)

    ctx.rule("T4: the lock_status field is assigned only by FieldSubstate::lock / KeyValueEntrySubstate::lock (to Locked) "
             "and by constructors")
    writers = {}
    for f in F.fns.values():
        if any(x.endswith("SubstateV1.lock_status") and x.startswith(SUB) for x in f.fw):
            writers[f.root] = f
    check_who_may(ctx, "who-writes-lock_status", writers, {
        r"^radix_engine::system::system_substates::(FieldSubstate|KeyValueEntrySubstate)::lock$": "the lock operation",
        r"^<radix_engine::system::system_substates::.* as (sbor::|core::clone::Clone)": "derived decode/clone",
    }, "in-place writer of a lock_status field")
    ctx.floor("who-writes-lock_status", len(writers), 2)
    for t in ("FieldSubstate", "KeyValueEntrySubstate"):
        n = f"{SUB}::{t}::lock"
        if ctx.anchor(n):
            b = ctx.body(n)
            vs = [v for v in F.fns[n].vars if v.startswith(SUB + "::LockStatus::")]
            ctx.ob(f"{t}::lock|assigns-Locked-only", vs == [SUB + "::LockStatus::Locked"], f"{t}::lock constructs {vs}", b.loc())
    ctx.assume("object-module lock paths (metadata, role assignment, royalty) reach substates only through the SystemService APIs "
               "checked here (enforced by the no-bypass table)")
