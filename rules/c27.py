"""C27 Decimal text parsing and printing are exact inverses — the acceptance-set clause that is visible in the code's shape:
the fractional component must be digits only before a sign-accepting integer parser is applied to it."""
import re
from lib import *

TYS = {"Decimal": ("radix_common::math::decimal::Decimal", r"bnum_integer::I192 as core::str::traits::FromStr>::from_str$"),
       "PreciseDecimal": ("radix_common::math::precise_decimal::PreciseDecimal", r"bnum_integer::I256 as core::str::traits::FromStr>::from_str$")}


def digits_only_guard(body):
    """pass edges of tests establishing that a &str consists of ASCII digits only / carries no sign:
    `<iter>.all(is_ascii_digit)` == true, or starts_with('+') / starts_with('-') == false"""
    edges, blocks = [], []
    for sb, tru, fal, si in body.call_bool_guards(r"Iterator(>)?::all$"):
        # the closure / fn item passed to all() must be (or call) is_ascii_digit
        ok = False
        for a in si["atoms"]:
            if a.kind == "call" and a.what.endswith("::all"):
                for x in body.origins(a.extra["args"][1], deep=True):
                    nm = str(x.what)
                    if "is_ascii_digit" in nm:
                        ok = True
                    if x.kind == "agg" and x.extra and x.extra.get("ak") == "closure":
                        cl = x.extra.get("def")
                        f = body.F.fns.get(cl)
                        if f and any("is_ascii_digit" in c[0] for c in f.calls):
                            ok = True
        if ok:
            edges.append((sb, tru)); blocks.append(sb)
    return edges, blocks


def run(ctx):
    F = ctx.F
    ctx.rule("T2: in <Decimal as FromStr>::from_str and <PreciseDecimal as FromStr>::from_str the fractional component (second piece of the split "
             "on '.') reaches the sign-accepting big-integer parser only behind a digits-only test; otherwise inputs such as \"1.-5\" or \"1.+5\" "
             "are accepted (and the sign is even counted as a fractional digit)")
    for short, (ty, parser) in TYS.items():
        n = "<" + ty + " as core::str::traits::FromStr>::from_str"
        if not ctx.anchor(n):
            continue
        b = ctx.body(n)
        calls = b.calls(parser)
        ctx.ob(f"{short}|parser-calls", len(calls) == 2, f"{len(calls)} calls to the big-integer parser (integral and fractional component)", b.loc())
        frac = []
        for bb, t in calls:
            # which element of the split vector is parsed?  v[1] is an Index call with constant 1
            idx = [b.const_value(a.extra["args"][1]) for a in b.origins(t["args"][0]) if a.kind == "call" and "Index" in a.what and len(a.extra["args"]) > 1]
            if 1 in idx:
                frac.append(bb)
        ctx.ob(f"{short}|fractional-parse-site", len(frac) == 1, f"fractional component parse site(s): bb{frac}", b.loc())
        check_guarded(ctx, f"{short}|fractional-part-digits-only", b, frac, [G_custom(digits_only_guard, "fractional component consists of ASCII digits only")],
                      "big-integer parse of the fractional component")
        # >2 components rejected; empty components rejected
        vs = {v.rsplit("::", 1)[-1] for x in ctx.bodies_of(n) for v in x.fn.vars if "ParseDecimalError::" in v or "ParsePreciseDecimalError::" in v}
        need = {"MoreThanOneDecimalPoint", "EmptyIntegralPart", "EmptyFractionalPart", "InvalidDigit", "Overflow"}
        ctx.ob(f"{short}|rejections-live", need <= vs, f"parse errors constructed: {sorted(vs)}", b.loc())
        # scale derived from the fractional component's length
        sc = [t for _, t in b.calls(r"::checked_sub$") if any(a.kind == "call" and a.what.endswith("::len") for a in b.origins(t["args"][1], deep=True))]
        ctx.ob(f"{short}|scale-from-fraction-length", len(sc) >= 1, "the scale is SCALE - len(fractional component)", b.loc())
    ctx.rule("sign of a negative numeral whose integral part is all zeros (`-0.5`, `-00.5`): the big-integer parser returns 0 and loses it, so "
             "from_str must take the sign from the text — a prefix test (`starts_with` / `strip_prefix`) on the integral component — not from an "
             "equality with one particular spelling")
    for ty in ("decimal::Decimal", "precise_decimal::PreciseDecimal"):
        fs = [x for x in F.fns if re.search(r"^<radix_common::math::" + ty + r" as core::str::traits::FromStr>::from_str$", x)]
        for x in fs[:1]:
            b = ctx.body(x)
            pre = b.calls(r"str::starts_with$|<impl str>::starts_with$|str::strip_prefix$|<impl str>::strip_prefix$")
            guards = [bb for bb, tru, fal, si in b.call_bool_guards(r"starts_with$")]
            ctx.ob(f"{ty.split('::')[1]}|sign-taken-from-the-text-prefix", len(pre) >= 1 and (bool(guards) or any("strip_prefix" in t["f"] for _, t in pre)),
                   f"{len(pre)} prefix test(s) on the numeral's text, {len(guards)} of them branching", b.loc())
    ctx.assume("print/parse round-trip equality and exactness of the parsed value are value-level and NOT decided; only the digits-only acceptance "
               "condition for the fractional component and the liveness of the rejections are")
