"""C38 Static resource movement bounds are sound — the conservative-default clauses visible in the code's shape:
(1) a native invocation classified as 'returns no resources' has an Output type that cannot carry a bucket,
(2) an invocation the analyser cannot resolve yields *unknown* resources, never 'nothing'."""
import re
from lib import *

T = "radix_transactions::manifest::static_resource_movements::"
TR = T + "types::TrackedResources"
# audited exceptions: a bucket is returned but it is empty by the callee's definition (the source says so at the impl)
EMPTY_BUCKET_BY_DEFINITION = {
    "ResourceManagerCreateEmptyBucketInput": "create_empty_bucket returns a bucket holding nothing: 'no resources' is exact",
}
BUCKETY = re.compile(r"\b(Bucket|FungibleBucket|NonFungibleBucket|ManifestBucket)\b")


def run(ctx):
    F = ctx.F
    ctx.rule("T8 table agreement: every `impl StaticInvocationResourcesOutput for <X>Input` whose body only builds TrackedResources::new_empty() "
             "(declares: this invocation returns no resources) has an `<X>Output` type alias (radix-engine-interface / radix-engine, macro-generated "
             "ones included) whose expanded type mentions no bucket type")
    impls = [n for n in F.fns if re.match(r"^<.* as " + re.escape(T) + r"effect::StaticInvocationResourcesOutput>::output$", n)]
    ctx.floor("output-impls", len(impls), 170)
    by_last = {}
    for k, v in F.aliases.items():
        by_last.setdefault(k.rsplit("::", 1)[-1], []).append((k, v))
    empty, matched, unmatched = [], 0, []
    for n in sorted(impls):
        f = F.fns[n]
        tr = sorted(set(c[0].rsplit("::", 1)[-1] for c in f.calls if "TrackedResources" in c[0]))
        if tr != ["new_empty"]:
            continue
        empty.append(n)
        ty = re.match(r"^<(.*) as ", n).group(1)
        last = ty.rsplit("::", 1)[-1]
        base = re.sub(r"(Manifest)?Input$", "", last)
        al = by_last.get(base + "Output", [])
        if not al:
            unmatched.append(last)
            continue
        matched += 1
        bad = [(k, v) for k, v in al if BUCKETY.search(v)]
        if last in EMPTY_BUCKET_BY_DEFINITION:
            ctx.ob(f"no-output-class|{last}|audited", True, f"{last}: {EMPTY_BUCKET_BY_DEFINITION[last]}", f.loc())
            if not bad:
                ctx.note(f"audited exception {last} no longer returns a bucket; the table row is stale (harmless)")
            continue
        ctx.ob(f"no-output-class|{last}", not bad,
               f"{last} is declared to return no resources; {base}Output = {al[0][1]}" + (" CAN CARRY A BUCKET: the analyser would under-report what the worktop receives" if bad else ""),
               f.loc())
    ctx.floor("no-output-class|impls", len(empty), 120)
    ctx.floor("no-output-class|matched-with-an-Output-alias", matched, 118)
    if unmatched:
        ctx.note(f"{len(unmatched)} no-output impl(s) without an <X>Output alias (not decidable here): {unmatched[:8]}")
    ctx.rule("T2/argument origin in StaticResourceMovementsVisitor::handle_invocation_end: when resolve_native_invocation yields None the output is "
             "TrackedResources::new_with_possible_balance_of_unspecified_resources (unknown), and what is added to the worktop is that value or the "
             "typed invocation's own output — never a fresh empty set")
    n = T + "visitor::StaticResourceMovementsVisitor::handle_invocation_end"
    if ctx.anchor(n):
        b = ctx.body(n)
        gs = [g for g in b.enum_guards(r"core::option::Option$", lambda a: a.kind == "call" and a.what.endswith("::resolve_native_invocation"))
              if "None" in g[1] and "Some" in g[1]]   # (drop-elaboration re-tests of the moved Option have a Some edge only)
        ctx.ob("unresolved|match-on-resolution", len(gs) == 1, f"{len(gs)} match(es) on the result of resolve_native_invocation", b.loc())
        unk = set(call_blocks(b, re.escape(TR) + r"::new_with_possible_balance_of_unspecified_resources$"))
        emp = set(call_blocks(b, re.escape(TR) + r"::new_empty$"))
        for bb, ed, ow, si in gs[:1]:
            none_succ = ed.get("None", ow)
            region = b.reach((none_succ,), blocked_blocks=[bb]) if none_succ is not None else set()
            first = None
            # the None arm must construct the unknown set before joining
            ok = bool(region & unk) and not (region & emp)
            ctx.ob("unresolved|None-arm-yields-unknown", ok, "the None arm builds new_with_possible_balance_of_unspecified_resources and no new_empty", b.loc(bb))
        adds = b.calls(re.escape(TR) + r"::mut_add$")
        ok = len(adds) == 1
        if ok:
            names = origin_names(b, adds[0][1]["args"][1])
            ok = bool(names) and all(re.search(r"new_with_possible_balance_of_unspecified_resources$|StaticInvocationResourcesOutput(<[^>]*>)?>::output$|::output$", x) for x in names)
            ctx.ob("unresolved|worktop-gets-the-invocation-output", ok, f"worktop.mut_add receives {sorted(x.split('::')[-1] for x in names)}", b.loc(adds[0][0]))
        else:
            ctx.ob("unresolved|worktop-gets-the-invocation-output", False, f"{len(adds)} mut_add site(s)", b.loc())
    ctx.rule("T5: resolve_native_invocation matches every InvocationKind with no catch-all (a new kind of invocation cannot silently resolve to 'known, nothing returned')")
    n = T + "visitor::StaticResourceMovementsVisitor::resolve_native_invocation"
    if ctx.anchor(n):
        check_no_live_otherwise(ctx, "resolve|InvocationKind-exhaustive", ctx.body(n), r"::InvocationKind$", "match on InvocationKind")
    ctx.rule("argument origin (conservative default, per account): when a resource first becomes individually tracked in AllBalanceChanges its "
             "`deposited` bounds start from the account's earlier deposits of *unknown* resources (unspecified_resource_deposits.resource_bounds()), "
             "never from zero/default — an unknown deposit may have contained that resource")
    n2 = T + "types::AllBalanceChanges::aggregated_balance_change_mut"
    if ctx.anchor(n2):
        ok, site = False, None
        defaults = []
        for b in ctx.bodies_of(n2):
            defaults += b.calls(r"Entry(<[^>]*>)?::or_default$|Entry(<[^>]*>)?::or_insert_with$|Default>::default$")
            for i in range(b.n):
                for st in b.stmts(i):
                    if st["k"] == "=" and st["rv"]["k"] == "agg" and (st["rv"].get("adt") or "").endswith("::AggregatedBalanceChange"):
                        f_ops = dict(zip(st["rv"].get("fields", []), st["rv"]["ops"]))
                        if "deposited" in f_ops:
                            site = b.loc(i)
                            ok = any(x.endswith("::resource_bounds") for x in origin_names(b, f_ops["deposited"]))
        dep_default = [t for _, t in defaults if not t["f"].endswith("Default>::default")]
        ctx.ob("account-changes|new-resource-inherits-unknown-deposits", ok and not dep_default,
               "a newly tracked resource's deposited bounds originate from unspecified_resource_deposits.resource_bounds()" if ok and not dep_default else
               "a newly tracked resource starts from a default (zero) deposit: earlier unknown deposits to the account are forgotten", site or "")
    ctx.assume("that each typed invocation's declared output bounds are themselves right (amounts, ids), and that executions stay within the reported "
               "bounds, is semantic and NOT decided; only the two conservative-default clauses above")
