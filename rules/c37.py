"""C37 Resource assertions accept exactly the balances they describe — enforcement-liveness clause: every constraint kind has a
rejecting arm; every rejection is live; no catch-all."""
import re
from lib import *
from c15 import arm_regions

M = "radix_common::data::manifest::model::manifest_resource_assertion::"
MRC = M + "ManifestResourceConstraint"


def run(ctx):
    F = ctx.F
    ctx.rule("T5/T7: ManifestResourceConstraint::validate_fungible / validate_non_fungible match every constraint kind with no catch-all, and "
             "the arm of every kind contains a rejecting path (a branch with a doomed successor, an unconditional Err, or a `?` on the general "
             "constraint's validator); Ok(()) is not reachable from a failed comparison")
    for fn in ("validate_fungible", "validate_non_fungible"):
        n = MRC + "::" + fn
        if not ctx.anchor(n):
            continue
        b = ctx.body(n)
        gs = [g for g in b.enum_guards(re.escape(MRC) + "$") if len(g[1]) >= 4]
        ctx.ob(f"{fn}|match", len(gs) == 1, f"{len(gs)} match(es) over ManifestResourceConstraint", b.loc())
        for bb, ed, ow, si in gs[:1]:
            full = set(F.enums.get(MRC, {}).values())
            ctx.ob(f"{fn}|no-catch-all", ow is None and set(ed) == full, f"arms {sorted(ed)} / variants {sorted(full)}", b.loc(bb))
            for v, s in sorted(ed.items()):
                region = b.reach((s,), blocked_blocks=[bb])
                rej = False
                if doomed(b, s):
                    rej = True          # the whole arm rejects (e.g. NF constraint on a fungible resource)
                for sb in b.switches():
                    if sb in region and sb != bb:
                        succs = b.succs(sb)
                        d = [x for x in succs if doomed(b, x)]
                        if d and len(d) < len(succs):
                            rej = True
                ctx.ob(f"{fn}|{v}-can-reject", rej, f"arm of {v} " + ("contains a rejecting path" if rej else "has NO rejecting path: every balance is accepted"), b.loc(bb))
    ctx.rule("T7: every ResourceConstraintError / ResourceConstraintsError variant is produced; the general constraint validates lower bound, "
             "upper bound, required ids and allow-list")
    check_variants_live(ctx, "ResourceConstraintError", M + "ResourceConstraintError", r"radix_common::|radix_engine::", conditional=False)
    check_variants_live(ctx, "ResourceConstraintsError", M + "ResourceConstraintsError", r"radix_common::|radix_engine::", conditional=False)
    g = M + "GeneralResourceConstraint::"
    for fn, need in (("validate_amount", [r"LowerBound::validate_amount$", r"UpperBound::validate_amount$"]),
                     ("validate_non_fungible_ids", [r"GeneralResourceConstraint::validate_amount$"])):
        n = g + fn
        if ctx.anchor(n):
            b = ctx.body(n)
            for pat in need:
                check_guarded(ctx, f"general|{fn}|{pat.split('::')[-2]}", b, b.ok_exits(), [G_try(pat)], "Ok(())")
    n = g + "validate_non_fungible_ids"
    if n in F.fns:
        bs = ctx.bodies_of(n)
        got = {v.rsplit("::", 1)[-1] for x in bs for v in x.fn.vars if "ResourceConstraintError::" in v}
        b = ctx.body(n)
        allow = b.try_guards(r"AllowedIds::validate_ids$")
        al = [x for x in F.fns if x.endswith("AllowedIds::validate_ids")]
        al_ok = bool(al) and any(v.endswith("ResourceConstraintError::NonFungibleNotAllowed") for x in ctx.bodies_of(al[0]) for v in x.fn.vars)
        ctx.ob("general|required-and-allow-list-checked", "NonFungibleMissing" in got and bool(allow) and al_ok,
               f"validate_non_fungible_ids raises {sorted(got)} and propagates AllowedIds::validate_ids (which raises NonFungibleNotAllowed: {al_ok})", F.fns[n].loc())
        check_guarded(ctx, "general|allow-list-before-ok", b, b.ok_exits(), [G_try(r"AllowedIds::validate_ids$")], "Ok(())")
    for bound, err in (("LowerBound", "ExpectedAtLeastAmount"), ("UpperBound", "ExpectedAtMostAmount")):
        n = M + bound + "::validate_amount"
        if ctx.anchor(n):
            b = ctx.body(n)
            sites = agg_blocks(b, re.escape(M) + "ResourceConstraintError$", err)
            ctx.ob(f"{bound}|rejects", bool(sites) and all(doomed(b, s) for s in sites), f"{err} constructed on a doomed path", b.loc())
    n = M + "ManifestResourceConstraints::validate"
    if ctx.anchor(n):
        bs = ctx.bodies_of(n)
        got = {v.rsplit("::", 1)[-1] for x in bs for v in x.fn.vars if "ResourceConstraintsError::" in v}
        ctx.ob("constraints|validate-rejections", {"UnexpectedNonZeroBalanceOfUnspecifiedResource", "ResourceConstraintFailed"} <= got, f"validate can raise {sorted(got)}", F.fns[n].loc())
    ctx.rule("T8 necessary comparisons of GeneralResourceConstraint::is_valid_independent_of_resource_type: a constraint is declared valid only "
             "after (1) lower vs upper bound, (2) number of required ids vs upper bound and (3) lower bound vs the allow-list size have each "
             "been compared (operands by origin, any comparison form) with an arm that cannot reach `true`; required ids are tested to be a "
             "subset of the allow-list — dropping one declares an unsatisfiable constraint valid")
    nv = M + "GeneralResourceConstraint::is_valid_independent_of_resource_type"
    if ctx.anchor(nv):
        b = ctx.body(nv)
        trues = [i for i in range(b.n) for st in b.stmts(i) if st["k"] == "=" and st["p"] == [0] and st["rv"]["k"] == "use" and st["rv"]["o"][0] == "k"
                 and str(st["rv"]["o"][1].get("v")) in ("1", "true")]

        def tags(op):
            out = set()
            for x in b.origins(op, deep=True):
                if x.kind == "param" and x.proj:
                    if ".lower_bound" in x.proj: out.add("lower")
                    if ".upper_bound" in x.proj: out.add("upper")
                    if ".required_ids" in x.proj: out.add("required")
                    if "@Allowlist" in x.proj: out.add("allowlist")
            return out
        found = {}
        for bb, tru, fal, si in b.call_bool_guards(r"PartialOrd(<[^>]*>)?(>)?::(gt|lt|ge|le)$"):
            for a in si["atoms"]:
                if a.kind == "call" and re.search(r"::(gt|lt|ge|le)$", a.what):
                    t0, t1 = tags(a.extra["args"][0]), tags(a.extra["args"][1])
                    rejecting = any(not (b.reach((s_,)) & set(trues)) for s_ in (tru, fal) if s_ is not None)
                    for pair in (("lower", "upper"), ("required", "upper"), ("lower", "allowlist")):
                        if ((pair[0] in t0 and pair[1] in t1 and not (pair[1] in t0)) or (pair[1] in t0 and pair[0] in t1 and not (pair[1] in t1 and pair[0] in t0))) and rejecting:
                            # the comparison relates exactly this pair (an operand mixing both sides does not count)
                            if not ({pair[0], pair[1]} <= t0 or {pair[0], pair[1]} <= t1):
                                found.setdefault(pair, []).append(bb)
        ctx.ob("is_valid|true-exits", len(trues) >= 1, f"{len(trues)} `true` result site(s)", b.loc())
        for pair, what in ((("lower", "upper"), "lower bound vs upper bound"), (("required", "upper"), "required-id count vs upper bound"),
                           (("lower", "allowlist"), "lower bound vs allow-list size")):
            ctx.ob(f"is_valid|compares-{pair[0]}-with-{pair[1]}", pair in found,
                   f"{what}: rejecting comparison at bb{found.get(pair)}" if pair in found else f"{what}: NO rejecting comparison between these two quantities", b.loc())
        sub = b.call_bool_guards(r"::is_subset$")
        ctx.ob("is_valid|required-subset-of-allowlist", any(not (b.reach((fal,)) & set(trues)) for bb, tru, fal, si in sub if fal is not None),
               f"{len(sub)} is_subset test(s) with a rejecting arm", b.loc())
    ctx.assume("the iff itself (each comparison is the right one, normalisation preserves the accepted set, declared-valid implies satisfiable) is "
               "value-level and NOT decided; only that every constraint kind is enforced by some rejecting path")
