"""C19 A crash during a Merkle-store commit leaves a consistent store — atomic-batch rule (config B: rocksdb feature)."""
import re
from lib import *

CONFIGS = ("B",)
COMMIT = "<radix_substate_store_impls::rocks_db_with_merkle_tree::RocksDBWithMerkleTreeSubstateStore as radix_substate_store_interface::interface::CommittableSubstateDatabase>::commit"
DIRECT = r"^rocksdb::db::DBCommon(<.*>)?::(put|put_opt|put_cf|put_cf_opt|delete|delete_opt|delete_cf|delete_cf_opt|delete_range_cf|delete_range_cf_opt|merge|merge_cf|merge_opt|merge_cf_opt|delete_file_in_range|delete_file_in_range_cf|ingest_external_file.*)$"
BATCH = r"^rocksdb::write_batch::WriteBatchWithTransaction(<.*>)?::(put|put_cf|delete|delete_cf|delete_range|delete_range_cf|merge|merge_cf)$"
FLUSH = r"^rocksdb::db::DBCommon(<.*>)?::(write|write_opt|write_without_wal)$"


def cf_of(b, t):
    """name of the column-family constant a rocksdb call addresses (through self.cf(<CONST>))"""
    out = set()
    for a in t["args"][1:3]:
        for at in b.origins(a):
            if at.kind == "call" and at.what.endswith("::cf"):
                for x in b.origins(at.extra["args"][1]):
                    if x.kind == "const":
                        out.add(str(x.what).rsplit("::", 1)[-1].rstrip("]"))
    return "+".join(sorted(out)) or "?"


def run(ctx):
    F = ctx.FB
    ctx.rule("T3+T4 in RocksDBWithMerkleTreeSubstateStore::commit: exactly one batch flush; no direct DB mutation is issued on a path "
             "that still reaches the flush (everything before the flush goes through the flushed WriteBatch); the META_CF record and all "
             "SUBSTATES_CF mutations are WriteBatch operations on every path to the flush; direct mutations after the flush touch only MERKLE_NODES_CF")
    if not ctx.anchor(COMMIT, F):
        return
    b = ctx.body(COMMIT, F)
    flushes = b.calls(FLUSH)
    ctx.ob("commit|single-flush", len(flushes) == 1, f"{len(flushes)} flush call(s) (DB::write) in commit", b.loc())
    if len(flushes) != 1:
        return
    fb = flushes[0][0]
    direct = b.calls(DIRECT)
    batch = b.calls(BATCH)
    ctx.floor("commit|batch-ops", len(batch), 3)
    pre = b.reach((0,), blocked_blocks=[fb])       # blocks reachable without passing the flush
    n_before = 0
    for bb, t in direct:
        cf = cf_of(b, t)
        op = t["f"].rsplit("::", 1)[-1]
        reaches_flush = fb in b.reach((bb,))
        before = bb in pre and reaches_flush
        if before:
            n_before += 1
            ctx.ob(f"commit|direct-write-before-flush|{cf}|{op}", False,
                   f"direct DB::{op} on {cf} is issued before the WriteBatch flush at line {b.line(fb)}: a crash between them leaves "
                   f"{cf} changed under the old state version/root (not atomic with META_CF)", b.loc(bb))
        else:
            ok = cf == "MERKLE_NODES_CF"
            ctx.ob(f"commit|direct-write-after-flush|{cf}|{op}", ok,
                   f"direct DB::{op} after the flush touches {cf} " + ("(stale-node GC, idempotent)" if ok else "— only MERKLE_NODES_CF GC is allowed"), b.loc(bb))
    ctx.ob("commit|no-direct-write-before-flush", n_before == 0, f"{n_before} direct DB mutation(s) precede the flush", b.loc(fb))
    # what the batch carries
    cfs = {}
    for bb, t in batch:
        cfs.setdefault(cf_of(b, t), []).append(bb)
    ctx.sample({"fn": "commit", "flush_block": fb, "batch_ops_by_cf": {k: len(v) for k, v in cfs.items()},
                "direct_ops": [(t["f"].rsplit("::", 1)[-1], cf_of(b, t), b.line(bb)) for bb, t in direct]})
    meta = cfs.get("META_CF", [])
    ok = bool(meta) and fb not in b.reach((0,), blocked_blocks=meta)
    ctx.ob("commit|meta-in-batch-on-every-path", ok, "the META_CF put is a WriteBatch operation on every path to the flush", b.loc(fb))
    sub = cfs.get("SUBSTATES_CF", [])
    ctx.ob("commit|substates-in-batch", len(sub) >= 3, f"{len(sub)} SUBSTATES_CF operation(s) go through the WriteBatch (Set, Delete, Reset range+puts expected)", b.loc())
    # the flushed batch is the batch that was filled
    fl_or = origin_names(b, flushes[0][1]["args"][1])
    same = all(origin_names(b, t["args"][0]) & fl_or for _, t in batch)
    ctx.ob("commit|flushes-the-filled-batch", same and any("WriteBatch" in x for x in fl_or), f"flush argument originates from {sorted(fl_or)}", b.loc(fb))
    # Reset: range delete precedes the puts of the new values inside the batch
    dr = [bb for bb, t in batch if t["f"].endswith("delete_range_cf")] + [bb for bb, t in direct if t["f"].endswith("delete_range_cf")]
    ctx.ob("commit|reset-clears-range", len(dr) >= 1, f"{len(dr)} delete_range_cf site(s) for partition Reset", b.loc())
    ctx.assume("RocksDB's own atomicity of write(batch) is trusted; no crash-point hook is used (static rule)")
    ctx.assume("configuration B: radix-substate-store-impls with feature rocksdb, type-checked without building the C++ library")
