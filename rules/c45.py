"""C45 WASM package validation is total and enforces the sandbox rules — pipeline completeness, feature literal, rejection liveness."""
import re
from lib import *

W = "radix_engine::vm::wasm::"
VAL = W + "wasm_validator::ScryptoV1WasmValidator::validate"
INIT = W + "prepare::WasmModule::init"
ALLOWED_TRUE = {"mutable_global", "sign_extension"}
MUST_BE_FALSE = {"floats", "threads", "simd", "relaxed_simd", "bulk_memory", "reference_types", "multi_value", "multi_memory", "memory64",
                 "tail_call", "exceptions", "saturating_float_to_int", "extended_const", "component_model", "function_references", "memory_control", "gc"}
LIMIT_ARGS = {  # method -> [(arg index, validator field)]
    "enforce_memory_limit_and_inject_max": [(1, "max_memory_size_in_pages")],
    "enforce_table_limit": [(1, "max_initial_table_size")],
    "enforce_br_table_limit": [(1, "max_number_of_br_table_targets")],
    "enforce_function_limit": [(1, "max_number_of_functions"), (2, "max_number_of_function_params"), (3, "max_number_of_function_locals")],
    "enforce_global_limit": [(1, "max_number_of_globals")],
    "enforce_import_constraints": [(1, "version")],
}


def run(ctx):
    F = ctx.F
    ctx.rule("T2 pipeline completeness: every WasmModule::{enforce_*, inject_*, ensure_*} method and WasmModule::init is applied with `?` on "
             "every path to the Ok of ScryptoV1WasmValidator::validate, each limit method receiving the validator's own limit field")
    steps = sorted(n for n in F.fns if re.match(re.escape(W) + r"prepare::WasmModule::(enforce|inject|ensure)_[a-z_]+$", n))
    ctx.floor("pipeline-steps", len(steps), 13)
    if ctx.anchor(VAL):
        b = the_body(ctx, VAL, r"WasmModule::to_bytes$")
        if b is None:
            ctx.ob("anchor|validate|to_bytes", False, "validate does not call WasmModule::to_bytes")
        else:
            targets = call_blocks(b, r"WasmModule::to_bytes$")
            for s in [INIT] + steps:
                check_guarded(ctx, f"pipeline|{s.rsplit('::',1)[1]}", b, targets, [G_try(re.escape(s) + "$")], "WasmModule::to_bytes (success result)")
            for m, args in LIMIT_ARGS.items():
                for bb, t in b.calls(r"WasmModule::" + m + "$"):
                    for idx, field in args:
                        ats = b.origins(t["args"][idx], deep=True)
                        ok = any(a.kind == "param" and ("." + field) in a.proj for a in ats)
                        ctx.ob(f"limit-arg|{m}|{field}", ok, f"argument #{idx} of {m} originates from self.{field}: {ok}", b.loc(bb))
            rets = {k for _, k in b.ret_assignments()}
            ctx.ob("validate|result-is-to_bytes", any(k.endswith("WasmModule::to_bytes") for k in rets) or "Ok" in rets, f"result assignments: {sorted(rets)}", b.loc())

    ctx.rule("T9: the WasmFeatures literal of WasmModule::init enables only mutable_global and sign_extension, and is the argument of "
             "ModuleInfo::validate, whose failure is propagated")
    if ctx.anchor(INIT):
        b = ctx.body(INIT)
        lits = [(i, s) for i in range(b.n) for s in b.stmts(i) if s["k"] == "=" and s["rv"]["k"] == "agg" and str(s["rv"].get("adt", "")).endswith("WasmFeatures")]
        ctx.ob("features|literal-present", len(lits) == 1, f"{len(lits)} WasmFeatures literal(s) in WasmModule::init", b.loc())
        for i, s in lits:
            vals = {}
            for f, o in zip(s["rv"]["fields"], s["rv"]["ops"]):
                vals[f] = o[1].get("v") if o[0] == "k" else "?"
            on = {f for f, v in vals.items() if v != "0"}
            ctx.ob("features|only-allowed-enabled", on <= ALLOWED_TRUE, f"enabled WebAssembly features: {sorted(on)} (allowed: {sorted(ALLOWED_TRUE)})", b.loc(i))
            missing = MUST_BE_FALSE - set(vals)
            ctx.ob("features|sandbox-relevant-fields-known", len(vals) >= 15, f"{len(vals)} feature fields in the literal; not present in this wasmparser version: {sorted(missing)}", b.loc(i))
            ctx.sample({"WasmFeatures": vals})
        vcalls = b.calls(r"ModuleInfo::validate$")
        ctx.ob("features|passed-to-validate", len(vcalls) == 1 and any(x.startswith("agg:") and x.endswith("WasmFeatures") for x in origin_names(b, vcalls[0][1]["args"][1])) if vcalls else False,
               "ModuleInfo::validate receives the literal", b.loc())
        check_guarded(ctx, "init|validate-propagated", b, b.ok_exits(), [G_try(r"ModuleInfo::validate$"), G_try(r"ModuleInfo::new$")], "Ok(WasmModule)")

    ctx.rule("T7: every PrepareError / InvalidImport / InvalidMemory / InvalidTable variant is produced in vm::wasm")
    SC = r"^(<)?radix_engine::vm::wasm::"
    check_variants_live(ctx, "PrepareError", W + "errors::PrepareError", SC, conditional=False,
                        dead_ok={"SerializationError": "serialisation of an instrumented module cannot fail on the pinned wasm-instrument; kept for API stability",
                                 "NoExportSection": "superseded by MissingExport", "NotCompilable": "ensure_compilable is a no-op for the interpreter backend",
                                 "Overflow": "reserved",
                                 "NoScryptoAllocExport": "legacy ABI: scrypto_alloc is no longer a required export (host-managed buffers)",
                                 "NoScryptoFreeExport": "legacy ABI: scrypto_free is no longer a required export (host-managed buffers)"})
    for e in ("InvalidImport", "InvalidMemory", "InvalidTable"):
        check_variants_live(ctx, e, W + "errors::" + e, SC, conditional=False, dead_ok={})
    ctx.rule("T2/T9: the MemoryNotExported rejection in enforce_memory_limit_and_inject_max is decided by a predicate over the export section that "
             "tests BOTH the export's kind (ExternalKind::Memory) and its name (EXPORT_MEMORY) — a name-only test lets a function or global "
             "called \"memory\" through, and instantiation then finds no memory export")
    n = W + "prepare::WasmModule::enforce_memory_limit_and_inject_max"
    if ctx.anchor(n):
        bs = ctx.bodies_of(n)
        b = ctx.body(n)
        sites = [x for x in agg_blocks(b, r"::InvalidMemory$", "MemoryNotExported")]
        ctx.ob("memory-export|rejection-doomed", bool(sites) and all(doomed(b, s_) for s_ in sites), f"{len(sites)} MemoryNotExported site(s), all doomed", b.loc())
        kind_test, name_test = [], []
        for x in bs:
            k = bool(x.calls(r"PartialEq<[^>]*ExternalKind>>::eq$|ExternalKind as core::cmp::PartialEq>::eq$|ExternalKind>>::eq$")) or \
                any("Memory" in ed for _, ed, _, _ in x.enum_guards(r"::ExternalKind$")) or any(v.endswith("ExternalKind::Memory") for v in x.fn.vars)
            nm = any(c.endswith("::EXPORT_MEMORY") for c in x.fn.consts) and bool(x.calls(r"PartialEq(<[^>]*>)?>::eq$|::eq$|::contains$"))
            if k:
                kind_test.append(x.name.rsplit("::", 1)[-1])
            if nm:
                name_test.append(x.name.rsplit("::", 1)[-1])
        ctx.ob("memory-export|predicate-tests-kind", bool(kind_test), f"export kind compared with ExternalKind::Memory in {kind_test}", b.loc())
        ctx.ob("memory-export|predicate-tests-name", bool(name_test), f"export name compared with EXPORT_MEMORY in {name_test}", b.loc())
    ctx.assume("that each step's predicate is the right one for every module, and semantic preservation of instrumentation (C46), are not decided")
