"""C28 Addresses and identifiers have lossless, network-bound text forms — network binding guards + parser panic surface."""
import re
from lib import *

A = "radix_common::address::"
DEC = A + "decoder::AddressBech32Decoder"
NFL = "radix_common::data::scrypto::model::non_fungible_local_id::"


def delimited_slice_discharge(body, kind, bb, t):
    """`s[1..s.len()-1]` (and its `len()-1` subtraction) is safe when dominated by starts_with(c1)==true and ends_with(c2)==true for ASCII
    char constants with c1 != c2 (so len >= 2 and both cut points are char boundaries), or additionally by `s.len() > 1`"""
    if kind not in ("index:str[range]", "Overflow(Sub)<usize>"):
        return False
    best = False
    for sb, tru, fal, si in body.call_bool_guards(r"(str|<impl str>)::starts_with$"):
        for a in si["atoms"]:
            if a.kind != "call" or not a.what.endswith("starts_with"):
                continue
            c1 = body.const_value(a.extra["args"][1]) if a.extra["args"][1][0] == "k" else None
            if c1 is None or c1 >= 128 or not body.unreachable_without([bb], [(sb, tru)])[0]:
                continue
            for sb2, tru2, fal2, si2 in body.call_bool_guards(r"(str|<impl str>)::ends_with$"):
                for a2 in si2["atoms"]:
                    if a2.kind != "call" or not a2.what.endswith("ends_with"):
                        continue
                    c2 = body.const_value(a2.extra["args"][1]) if a2.extra["args"][1][0] == "k" else None
                    if c2 is None or c2 >= 128 or not body.unreachable_without([bb], [(sb2, tru2)])[0]:
                        continue
                    if c1 != c2:
                        best = True
                    else:
                        # same delimiter on both ends: needs an explicit len > 1 test
                        g = G_bin("Gt", [r"::len$"], [r"^const:1$"], "len > 1", True)
                        e, bl = pass_edges(body, g)
                        if bl and body.unreachable_without([bb], e)[0]:
                            best = True
    return best


def run(ctx):
    F = ctx.F
    ctx.level = "other"
    ctx.explanation = ("Network-binding rules are exact dominance / table rules; the parser panic surface (T6) is an audited multiset with local "
                       "dominance discharges (delimited &str slices behind starts_with/ends_with on distinct ASCII delimiters, constant Vec indexes "
                       "behind len()==N). Round-trip equalities and the canonical-integer acceptance set are NOT decided.")
    ctx.rule("T2: AddressBech32Decoder::validate_and_decode returns Ok only when the decoded HRP equals hrp_set.get_entity_hrp(entity_type); "
             "validate_and_decode_ignore_hrp returns Ok only past bech32 decoding, the Bech32m variant test, base32 conversion and the entity-byte "
             "lookup; its only caller is validate_and_decode")
    n = DEC + "::validate_and_decode"
    if ctx.anchor(n):
        b = ctx.body(n)
        check_guarded(ctx, "decode|hrp-matches-network", b, b.ok_exits(),
                      [G_cmp(r"call:.*validate_and_decode_ignore_hrp$", r"call:.*HrpSet::get_entity_hrp$", "decoded HRP == expected HRP"),
                       G_try(re.escape(DEC) + r"::validate_and_decode_ignore_hrp$")], "Ok((entity_type, data))")
        for bb, t in b.calls(r"HrpSet::get_entity_hrp$"):
            ctx.ob("decode|expected-hrp-for-decoded-entity", any("validate_and_decode_ignore_hrp" in x for x in origin_names(b, t["args"][1], deep=True)),
                   "the expected HRP is looked up for the decoded entity type", b.loc(bb))
        ctx.ob("decode|InvalidHrp-live", any(v.endswith("AddressBech32DecodeError::InvalidHrp") for v in b.fn.vars), "InvalidHrp is constructed", b.loc())
    n = DEC + "::validate_and_decode_ignore_hrp"
    if ctx.anchor(n):
        b = ctx.body(n)
        check_guarded(ctx, "decode_ignore_hrp|checks", b, b.ok_exits(), [
            G_try(r"^bech32::decode$"), G_enum(r"^bech32::Variant$", ["Bech32m"]), G_try(r"FromBase32.*::from_base32$|::from_base32$"),
            G_try(r"EntityType::from_repr$"), G_try(r"::first$")], "Ok((hrp, entity_type, data))")
    callers = who_calls(F, re.escape(DEC) + r"::validate_and_decode_ignore_hrp$")
    check_who_may(ctx, "who-ignores-hrp", callers, {re.escape(DEC) + r"::validate_and_decode$": "the network-checking wrapper"}, "caller of validate_and_decode_ignore_hrp")

    ctx.rule("T8: encoder and decoder take the HRP from the same HrpSet::get_entity_hrp, whose match over EntityType has no catch-all; every "
             "HRP of a network's HrpSet is built from that network's hrp_suffix")
    enc = [x for x in F.fns if re.match(re.escape(A) + r"encoder::AddressBech32Encoder::", x)]
    ctx.ob("encoder|uses-get_entity_hrp", any(any(c[0].endswith("HrpSet::get_entity_hrp") for c in F.fns[x].calls) for x in enc), "the encoder obtains the HRP from HrpSet::get_entity_hrp")
    n = A + "hrpset::HrpSet::get_entity_hrp"
    if ctx.anchor(n):
        check_no_live_otherwise(ctx, "get_entity_hrp|exhaustive", ctx.body(n), r"::EntityType$", "match on EntityType")
    fr = [x for x in F.fns if re.search(r"^<" + re.escape(A) + r"hrpset::HrpSet as core::convert::From<&.*NetworkDefinition>>::from$", x)]
    for x in fr[:1]:
        b = ctx.body(x)
        for i in range(b.n):
            for s in b.stmts(i):
                if s["k"] == "=" and s["rv"]["k"] == "agg" and str(s["rv"].get("adt", "")).endswith("hrpset::HrpSet"):
                    bad = []
                    for f, o in zip(s["rv"]["fields"], s["rv"]["ops"]):
                        if not any(a.kind == "param" and ".hrp_suffix" in a.proj for a in b.origins(o, deep=True)):
                            bad.append(f)
                    ctx.ob("HrpSet|every-hrp-carries-network-suffix", not bad and len(s["rv"]["fields"]) >= 12, f"{len(s['rv']['fields'])} HRP fields; not built from hrp_suffix: {bad or 'none'}", b.loc(i))
    if not fr:
        ctx.ob("anchor|HrpSet::from", False, "From<&NetworkDefinition> for HrpSet not found")

    ctx.rule("T6 over <NonFungibleLocalId as FromStr>::from_str and the address decoder: audited panic surface")
    audited = {
        r"NonFungibleLocalId as core::str::traits::FromStr>::from_str$": {
            "Result::unwrap": (1, "Vec<u8> -> [u8; 32] after hex::decode of exactly 64 hex digits (len()==64 test)"),
            "Overflow(Mul)<usize>": (1, "constant 32 * 2"), "Overflow(Add)<usize>": (1, "constant 64 + 3"),
        },
    }
    bodies = [x for n_ in F.fns if re.search(r"NonFungibleLocalId as core::str::traits::FromStr>::from_str$", n_) for x in ctx.bodies_of(n_)]
    bodies += [ctx.body(DEC + "::validate_and_decode"), ctx.body(DEC + "::validate_and_decode_ignore_hrp")]
    bodies = [x for x in bodies if x is not None]
    total, dis, listed = check_panic_surface(ctx, "parser-panic-surface", bodies, audited, discharge=delimited_slice_discharge, what="identifier parser")
    ctx.ob("parser-panic-surface|enumerated", total >= 12, f"{total} panic-capable construct(s), {dis} discharged by dominance rules, {listed} audited")
    ctx.assume("round-trip equalities and the canonical-integer acceptance set are value-level and not decided; panics inside the external bech32/hex crates are out of scope")
