"""C15 All substate store implementations are observationally equivalent — sibling agreement of the three commit impls (config B)."""
import re
from lib import *

CONFIGS = ("B",)
IF = "radix_substate_store_interface::interface"
IMPLS = {
    "memory": "<radix_substate_store_impls::memory_db::InMemorySubstateDatabase as " + IF + "::CommittableSubstateDatabase>::commit",
    "rocksdb": "<radix_substate_store_impls::rocks_db::RocksdbSubstateStore as " + IF + "::CommittableSubstateDatabase>::commit",
    "rocksdb+merkle": "<radix_substate_store_impls::rocks_db_with_merkle_tree::RocksDBWithMerkleTreeSubstateStore as " + IF + "::CommittableSubstateDatabase>::commit",
}
INSERT = r"(BTreeMap(<.*>)?::insert|::put_cf|::put)$"
REMOVE = r"(BTreeMap(<.*>)?::remove|::delete_cf|::delete)$"
CLEAR = r"(::delete_range_cf|BTreeMap(<.*>)?::clear|FromIterator.*::from_iter|::from_iter)$"
REINSERT = r"(::put_cf|::put|BTreeMap(<.*>)?::insert|FromIterator.*::from_iter|::from_iter)$"


def arm_regions(b, bb, edges):
    """arm -> blocks reachable from the arm's entry without re-entering the switch, exclusive to that arm"""
    reg = {v: b.reach((s,), blocked_blocks=[bb]) for v, s in edges.items()}
    excl = {}
    for v, r in reg.items():
        others = set().union(*[x for w, x in reg.items() if w != v]) if len(reg) > 1 else set()
        excl[v] = r - others
    return excl


def calls_in(b, blocks, pattern):
    r = re.compile(pattern)
    return [bb for bb in sorted(blocks) if b.term(bb)["k"] == "call" and (r.search(b.term(bb)["f"]) or r.search(b.term(bb)["fd"]))]


def run(ctx):
    F = ctx.FB
    ctx.rule("T8/T5 over the three CommittableSubstateDatabase::commit impls: matches on DatabaseUpdate / PartitionDatabaseUpdates have no "
             "catch-all; the Set arm performs an insert-class effect and no remove-class effect, the Delete arm the converse; the Reset arm "
             "clears the partition (range delete / replace) before (re)inserting the new values")
    for label, name in IMPLS.items():
        if not ctx.anchor(name, F):
            continue
        b = ctx.body(name, F)
        du = b.enum_guards(r"radix_common::state::state_updates::DatabaseUpdate$")
        pu = b.enum_guards(re.escape(IF) + r"::PartitionDatabaseUpdates$")
        ctx.ob(f"{label}|matches-present", len(du) >= 1 and len(pu) >= 1, f"{len(du)} match(es) on DatabaseUpdate, {len(pu)} on PartitionDatabaseUpdates", b.loc())
        for bb, ed, ow, si in du:
            ctx.ob(f"{label}|DatabaseUpdate|no-catch-all", ow is None and set(ed) == {"Set", "Delete"}, f"arms: {sorted(ed)} otherwise={ow}", b.loc(bb))
            ex = arm_regions(b, bb, ed)
            s_ins, s_rem = calls_in(b, ex.get("Set", ()), INSERT), calls_in(b, ex.get("Set", ()), REMOVE)
            d_ins, d_rem = calls_in(b, ex.get("Delete", ()), INSERT), calls_in(b, ex.get("Delete", ()), REMOVE)
            ctx.ob(f"{label}|Set-inserts", bool(s_ins) and not s_rem, f"Set arm: insert-class at bb{s_ins}, remove-class at bb{s_rem}", b.loc(bb))
            ctx.ob(f"{label}|Delete-removes", bool(d_rem) and not d_ins, f"Delete arm: remove-class at bb{d_rem}, insert-class at bb{d_ins}", b.loc(bb))
            ctx.sample({"impl": label, "match": "DatabaseUpdate", "Set": [b.term(x)["f"] for x in s_ins], "Delete": [b.term(x)["f"] for x in d_rem]})
        for bb, ed, ow, si in pu:
            ctx.ob(f"{label}|PartitionDatabaseUpdates|no-catch-all", ow is None and set(ed) == {"Delta", "Reset"}, f"arms: {sorted(ed)} otherwise={ow}", b.loc(bb))
            ex = arm_regions(b, bb, ed)
            reset = ex.get("Reset", set())
            clr = calls_in(b, reset, CLEAR)
            ins = calls_in(b, reset, REINSERT)
            ok = bool(clr) and bool(ins)
            # the clear comes first: (re)insert sites other than the clearing call itself are unreachable from the arm entry once the clear is removed
            later = [x for x in ins if x not in clr]
            if ok and later:
                r = b.reach((ed["Reset"],), blocked_blocks=clr + [bb])
                ok = not (set(later) & r)
            ctx.ob(f"{label}|Reset-clears-then-inserts", ok, f"Reset arm: clear-class at bb{clr}, insert-class at bb{ins}", b.loc(bb))
            delta = ex.get("Delta", set())
            ctx.ob(f"{label}|Delta-does-not-clear", not calls_in(b, delta, r"(::delete_range_cf|BTreeMap(<.*>)?::clear)$"),
                   "Delta arm performs no range delete / clear", b.loc(bb))
            ctx.sample({"impl": label, "match": "PartitionDatabaseUpdates", "Reset_clear": [b.term(x)["f"] for x in clr], "Reset_insert": [b.term(x)["f"] for x in ins]})

    ctx.rule("T9: both RocksDB stores build keys with the same encode_to_rocksdb_bytes and bound a partition with the same "
             "[u8::MAX; 2*MAX_SUBSTATE_KEY_SIZE] sort key")
    shapes = {}
    for label in ("rocksdb", "rocksdb+merkle"):
        name = IMPLS[label]
        if name not in F.fns:
            continue
        b = ctx.body(name, F)
        enc = {t["f"] for _, t in b.calls(r"::encode_to_rocksdb_bytes$")}
        fe = b.calls(r"alloc::vec::from_elem$")
        shape = []
        for bb, t in fe:
            shape.append((tuple(sorted(origin_names(b, t["args"][0], deep=True))), tuple(sorted(x for x in origin_names(b, t["args"][1], deep=True)))))
        shapes[label] = (tuple(sorted(enc)), tuple(shape))
        ctx.ob(f"{label}|range-end-uses-MAX_SUBSTATE_KEY_SIZE", any("MAX_SUBSTATE_KEY_SIZE" in c for c in b.fn.consts) and len(fe) == 1 and
               any(n in ("const:255", "const:u8::MAX") for n in shape[0][0]), f"range end built by vec![{shape}]", b.loc())
    ctx.ob("rocksdb-stores|same-key-encoding-and-range-end", len(shapes) == 2 and len(set(shapes.values())) == 1,
           f"key encoder / range-end shape per store: {shapes}")
    dec = who_calls(F, r"rocks_db::decode_from_rocksdb_bytes$")
    ctx.floor("decode_from_rocksdb_bytes|callers", len(dec), 2)
    ctx.assume("order preservation of the key encoding, listing equality and removal of a partition's last substate are value-level and not decided")
    ctx.rule("T2 in InMemorySubstateDatabase::commit: a partition entry created by `entry(..).or_default()` is always re-examined by the "
             "`is_empty()` test before the partition loop moves on — otherwise a commit that removes nothing from a partition that does not exist "
             "leaves a phantom empty partition that list_partition_keys reports and the RocksDB stores (which derive partitions from keys) never have")
    mc = [x for x in F.fns if re.search(r"memory_db::InMemorySubstateDatabase as .*CommittableSubstateDatabase>::commit$", x)]
    ctx.ob("memory-commit|anchor", len(mc) == 1, f"InMemorySubstateDatabase::commit: {len(mc)}")
    for x in mc[:1]:
        b = ctx.body(x, F)
        creates = call_blocks(b, r"Entry(<[^>]*>)?::or_default$|Entry(<[^>]*>)?::or_insert")
        tests = [bb for bb, tru, fal, si in b.call_bool_guards(r"BTreeMap(<[^>]*>)?::is_empty$|::is_empty$")]
        rets = b.returns() if hasattr(b, "returns") else []
        ok = bool(creates) and bool(tests)
        wit = None
        for c in creates:
            # from the creation, the next creation (next partition) or the function end must not be reachable without the emptiness test
            region = b.reach(tuple(b.succs(c)), blocked_blocks=tests)
            if c in region or (set(rets) & region):
                ok = False
                wit = c
        ctx.ob("memory-commit|created-partition-always-tested-for-emptiness", ok,
               "every partition entry created by or_default() reaches the is_empty() test before the next partition / the end" if ok else
               "a partition entry created by or_default() can survive without the is_empty() test: a no-op delta leaves a phantom empty partition", b.loc(wit) if wit is not None else b.loc())
    ctx.assume("configuration B: radix-substate-store-impls with feature rocksdb")
