"""C35 Subintent structure validation — liveness of every structural rejection and presence of all four steps (T7/T2)."""
import re
from lib import *

ERR = "radix_transactions::errors::SubintentStructureError"
V = "radix_transactions::validation::transaction_structure_validator::"


def run(ctx):
    F = ctx.F
    fn = [n for n in F.fns if n.endswith("::validate_intent_relationships") and "TransactionValidator" in n]
    if len(fn) != 1:
        ctx.ob("anchor|validate_intent_relationships", False, f"candidates: {fn}")
        return
    root = fn[0]
    bodies = ctx.bodies_of(root)
    b = ctx.body(root)
    oks = set(b.ok_exits())
    ctx.rule("T7: each structural rejection (duplicate, missing child, multiple parents, too deep, unreachable) is constructed in "
             "validate_intent_relationships on a conditional path that cannot reach Ok")
    want = ["DuplicateSubintent", "ChildSubintentNotIncludedInTransaction", "SubintentHasMultipleParents", "SubintentExceedsMaxDepth",
            "SubintentIsNotReachableFromTheTransactionIntent"]
    for v in want:
        sites = [(x, s) for x in bodies for s in agg_blocks(x, re.escape(ERR) + "$", v)]
        ok = bool(sites)
        detail = f"{len(sites)} construction site(s)"
        for x, s in sites:
            if x.name == root:
                d = not (x.reach((s,)) & oks)
                cond = bool(x.reach((0,), blocked_blocks=[s]) & oks)
                ok = ok and d and cond
                detail += f"; bb{s}: doomed={d} conditional={cond}"
        ctx.ob(f"rejection|{v}", ok, f"{v}: {detail}", b.loc(sites[0][1]) if sites and sites[0][0].name == root else b.loc())
    allv = set(F.enums.get(ERR, {}).values())
    ctx.ob("rejection|all-variants-classified", allv == set(want) | {"MismatchingYieldChildAndYieldParentCountsForSubintent"},
           f"SubintentStructureError variants: {sorted(allv)}")
    check_variants_live(ctx, "yield-count", ERR, r"^(<)?radix_transactions::validation::", dead_ok={w: "checked above" for w in want})

    ctx.rule("T2: the steps' data sources dominate Ok: subintent enumeration (step 1/2B), root children (2A), work-list traversal with the "
             "depth test against max_subintent_depth (3), final reachability scan (4)")
    def must_pass(key, pattern, minimum=1, what=""):
        blocks = call_blocks(b, pattern)
        ok = len(blocks) >= minimum and not (b.reach((0,), blocked_blocks=blocks) & oks)
        ctx.ob(f"step|{key}", ok, f"{what}: {len(blocks)} call site(s); Ok unreachable without them: {ok}", b.loc(blocks[0]) if blocks else b.loc())
    must_pass("enumerate-subintents", r"IntentTreeStructure::non_root_subintents$", 2, "steps 1 and 2B iterate the non-root subintents")
    must_pass("root-children", r"IntentStructure::children$", 1, "step 2 reads the declared children")
    must_pass("worklist", r"alloc::vec::Vec(<.*>)?::pop$", 1, "step 3 traverses the work list")
    must_pass("final-scan", r"indexmap::map::IndexMap(<.*>)?::iter$", 1, "step 4 scans every subintent")
    gs = field_guards(b, "max_subintent_depth")
    ok = bool(gs) and any(any(doomed(b, s) for s in b.succs(g)) for g in gs)
    ctx.ob("step|depth-limit", ok, f"depth test depending on config.max_subintent_depth at bb{gs} has a rejecting arm", b.loc(gs[0]) if gs else b.loc())
    # step-4 test reads the depth marked in step 3
    dep = [sb for sb in b.switches() if any(".depth" in a.proj for a in b.origins(b.term(sb)["o"], deep=True))]
    ctx.ob("step|reachability-uses-depth", any(any(doomed(b, s) for s in b.succs(g)) for g in dep), f"depth==0 test at bb{dep}", b.loc(dep[0]) if dep else b.loc())
    ctx.rule("T3 ordering + per-element: the yield-count comparison (the test guarding MismatchingYieldChildAndYieldParentCounts) runs only after "
             "every intent's yield summary has been collected — no insertion into the summaries map is reachable from the comparison — so the "
             "result cannot depend on the order in which the subintents are listed")
    vn = [x for x in F.fns if x.endswith("TransactionValidator::validate_intents_and_structure")]
    ctx.ob("yield-counts|anchor", len(vn) == 1, f"validate_intents_and_structure: {len(vn)}")
    for x in vn[:1]:
        vb = ctx.body(x)
        bodies_v = ctx.bodies_of(x)
        esites = [(y, s_) for y in bodies_v for s_ in agg_blocks(y, re.escape(ERR) + "$", "MismatchingYieldChildAndYieldParentCountsForSubintent")]
        ctx.ob("yield-counts|rejection-in-main-body", bool(esites) and all(y.name == x for y, _ in esites), f"{len(esites)} rejection site(s)", vb.loc())
        guards = []
        for sb in vb.switches():
            si = vb.switch_info(sb)
            if si and si["kind"] == "bool":
                for s_ in vb.succs(sb):
                    if any(e in vb.reach((s_,)) and doomed(vb, s_) for y, e in esites if y.name == x):
                        guards.append(sb)
        guards = sorted(set(guards))
        ctx.ob("yield-counts|comparison-found", len(guards) >= 1, f"comparison guard(s) at bb{guards}", vb.loc())
        inserts = call_blocks(vb, r"IndexMap(<[^>]*>)?::insert$")
        after = sorted({i for g in guards for i in inserts if i in vb.reach((g,))})
        ctx.ob("yield-counts|compared-after-all-summaries-collected", bool(guards) and not after,
               "no summary insertion is reachable from the comparison: all summaries exist when the first pair is compared" if not after else
               f"summaries are still being inserted (bb{after}) after the comparison at bb{guards}: a child listed before its parent is compared against a missing summary",
               vb.loc(guards[0]) if guards else vb.loc())
    ctx.assume("that the algorithm accepts exactly the well-formed trees is not decided (only that every rejection is live, doomed and that all steps are on the success path)")
