"""C26 Roots and powers are correctly truncated — the 'fail rather than panic' clause (audited panic surface, T6)."""
import re
from lib import *

TY = r"radix_common::math::(decimal::Decimal|precise_decimal::PreciseDecimal)"
FNS = re.compile(r"^" + TY + r"::(checked_powi|checked_sqrt|checked_cbrt|checked_nth_root)(::\{closure#\d+\})*$")
AUDITED = {
    r"Decimal::checked_sqrt$": {"bigint-op": (1, "I192 value (< 2^191) * 10^18 computed in I256: < 2^251")},
    r"Decimal::checked_cbrt$": {"bigint-op": (1, "I192 value * 10^36 computed in I320: < 2^311")},
    r"PreciseDecimal::checked_sqrt$": {"bigint-op": (1, "I256 value (< 2^255) * 10^36 computed in I384: < 2^375")},
    r"PreciseDecimal::checked_cbrt$": {"bigint-lib-op": (5, "arbitrary-precision BigInt arithmetic (cannot overflow); cbrt of any integer is defined")},
    r"::checked_nth_root$": {"bigint-lib-op": (5, "arbitrary-precision BigInt arithmetic; nth_root is called with n >= 1 and, for even n, a non-negative radicand (guards checked below)"),
                             "Overflow(Sub)<u32>": (1, "n - 1 behind the n == 0 => None guard"),
                             "Result::unwrap": (1, "the root of a value that fits the type fits the type")},
    r"::checked_powi$": {"bigint-op": (3, "ONE*ONE is a constant product that fits; `/ ONE` divides by a non-zero constant"),
                         "RemainderByZero": (1, "% 2 (constant)"), "Overflow(Rem)<i64>": (1, "% 2: only `% -1` can overflow")},
}


def run(ctx):
    F = ctx.F
    ctx.level = "other"
    ctx.explanation = ("Audited panic surface (T6) of checked_powi / checked_sqrt / checked_cbrt / checked_nth_root of Decimal and PreciseDecimal: every "
                       "panic-capable construct (MIR asserts, unwrap/expect, operator arithmetic on the big-integer wrappers and on num-bigint) must match an "
                       "audited entry with its range argument; the guards the arguments rely on (n == 0, even root of a negative) are checked by dominance. "
                       "Exact truncation of the results is numerical and NOT decided.")
    ctx.rule("T6: audited panic surface of the power / root functions")
    names = [n for n in F.fns if FNS.match(n)]
    ctx.floor("power-root-fns", len(names), 8)
    bodies = [ctx.body(n) for n in names]
    total, dis, listed = check_panic_surface(ctx, "powers-roots", bodies, AUDITED, what="decimal powers/roots")
    ctx.ob("powers-roots|enumerated", total >= 20, f"{total} panic-capable construct(s), {listed} within the audited table")
    ctx.rule("T2: checked_nth_root performs `n - 1` / nth_root(n) only when n != 0, and for a negative radicand only when n is odd")
    for ty in ("radix_common::math::decimal::Decimal", "radix_common::math::precise_decimal::PreciseDecimal"):
        n = ty + "::checked_nth_root"
        if not ctx.anchor(n):
            continue
        b = ctx.body(n)
        subs = [i for i in range(b.n) if b.term(i)["k"] == "assert" and b.term(i)["ak"].startswith("Overflow(Sub)<u32>")]
        roots = call_blocks(b, r"nth_root$")
        zero_guard = []
        for sb in b.switches():
            si = b.switch_info(sb)
            if si["kind"] == "int" and any(a.kind == "param" and a.what == 2 for a in si["atoms"]) and "0" in si["edges"]:
                zero_guard.append((sb, si["edges"]["0"]))
            if si["kind"] == "bool":
                for a in si["atoms"]:
                    if a.kind == "bin" and a.what in ("Eq", "Ne") and 0 in (b.const_value(a.extra["a"]), b.const_value(a.extra["b"])) and \
                            any(x.kind == "param" and x.what == 2 for o in (a.extra["a"], a.extra["b"]) for x in b.origins(o, deep=True)):
                        zero_guard.append((sb, si["true"] if a.what == "Eq" else si["false"]))
        # the `n == 0` edge must be doomed for the subtraction / root sites: they are unreachable from it
        ok = bool(zero_guard) and all(not (b.reach((z,)) & set(subs + roots)) for _, z in zero_guard)
        ctx.ob(f"{ty.rsplit('::',1)[1]}|nth_root|zero-degree-guard", ok, f"n == 0 tests at bb{[s for s, _ in zero_guard]}; the zero arm reaches neither `n - 1` nor nth_root(n)", b.loc())
        neg = b.call_bool_guards(r"::is_negative$")
        ctx.ob(f"{ty.rsplit('::',1)[1]}|nth_root|negative-even-guard", len(neg) >= 1, f"{len(neg)} test(s) on is_negative() (even root of a negative value is refused)", b.loc())
    ctx.rule("T6 refinement: inside checked_powi the overflow-panicking operator `*` / `+` / `-` of the wide integers is applied to constants "
             "only (ONE * ONE); every product of a variable operand goes through checked_mul — `base * base` in the widened type still overflows "
             "for large bases and would panic instead of returning None")
    for ty in ("radix_common::math::decimal::Decimal", "radix_common::math::precise_decimal::PreciseDecimal"):
        n = ty + "::checked_powi"
        if not ctx.anchor(n):
            continue
        bad = []
        n_ops = 0
        for b in ctx.bodies_of(n):
            for bb, t in b.calls(r"bnum_integer::\w+ as core::ops::arith::(Mul|Add|Sub)(<[^>]*>)?>::(mul|add|sub)$"):
                n_ops += 1
                srcs = [origin_names(b, a) for a in t["args"][:2]]
                if not all(s_ and all(x.startswith("const:") for x in s_) for s_ in srcs):
                    bad.append((t["f"].rsplit("::", 1)[-1], b.loc(bb)))
        ctx.ob(f"{ty.rsplit('::', 1)[1]}|powi|panicking-operators-on-constants-only", not bad,
               f"{n_ops} operator product(s)/sum(s), all on constants" if not bad else f"overflow-panicking operator applied to a variable operand: {[b_[0] for b_ in bad]}",
               bad[0][1] if bad else "")
    ctx.assume("that roots/powers are the exact results truncated toward zero, and never exceed the exact result in magnitude, is numerical and not decided")
