"""C04 Total supply always equals the sum of all vaults — single owner per balance substate, balance-change <-> event pairing,
insufficient-balance guard."""
import re
from lib import *
from resmod import *

RES = "radix_engine_interface::blueprints::resource::resource::"
# vault function -> (internal mover regex, event type regex) ; None = value moves liquid<->locked inside the vault (no balance change)
PAIRING = {
    FV + "::take_advanced": (r"::internal_take$", r"events::fungible_vault::WithdrawEvent"),
    FV + "::recall": (r"::internal_take$", r"events::fungible_vault::RecallEvent"),
    FV + "::put": (r"::internal_put$", r"events::fungible_vault::DepositEvent"),
    FV + "::lock_amount": (r"::internal_take$", None),
    FV + "::unlock_amount": (r"::internal_put$", None),
    NV + "::take_advanced": (r"::internal_take_by_amount$", r"events::non_fungible_vault::WithdrawEvent"),
    NV + "::take_non_fungibles": (r"::internal_take_non_fungibles$", r"events::non_fungible_vault::WithdrawEvent"),
    NV + "::recall": (r"::internal_take_by_amount$", r"events::non_fungible_vault::RecallEvent"),
    NV + "::recall_non_fungibles": (r"::internal_take_non_fungibles$", r"events::non_fungible_vault::RecallEvent"),
    NV + "::put": (r"::internal_put$", r"events::non_fungible_vault::DepositEvent"),
    NV + "::lock_non_fungibles": (r"::internal_take_non_fungibles$", None),
    NV + "::unlock_non_fungibles": (r"::internal_put$", None),
}


def run(ctx):
    F = ctx.F
    ctx.rule("T4: each balance / supply substate has one owning set of writer functions (vault and bucket liquid/locked state, total supply)")
    n = check_owner_table(ctx, "owner", r".")
    ctx.floor("owner-table-sites", n, 25)

    ctx.rule("T8: every vault function that moves value in or out of the liquid balance (internal_take*/internal_put) emits the paired "
             "Withdraw/Deposit/Recall event on every path to Ok, with the event payload originating from the moved resource; the only "
             "event-less movers are lock/unlock (liquid <-> locked inside the same vault)")
    movers = who_calls(F, r"(FungibleVaultBlueprint|NonFungibleVaultBlueprint)::(internal_take|internal_take_by_amount|internal_take_non_fungibles|internal_put)$")
    for root in sorted(movers):
        short = root.split("::")[-2] + "::" + root.split("::")[-1]
        if root not in PAIRING:
            ctx.ob(f"pairing|{short}", False, f"{root} moves vault balance but has no audited event pairing", F.fns[root].loc())
            continue
        mover, ev = PAIRING[root]
        b = ctx.body(root)
        mv = b.calls(mover)
        if not mv:
            ctx.ob(f"pairing|{short}", False, f"expected mover {mover} not called", b.loc())
            continue
        if ev is None:
            ctx.ob(f"pairing|{short}", True, "liquid <-> locked move inside the vault (no balance change, no event)", b.loc())
            continue
        emits = [(bb, t) for bb, t in b.calls(r"Runtime::emit_event$") if re.search(ev, t["ga"])]
        oks = set(b.ok_exits())
        good = bool(emits)
        for bb, t in mv:
            r = b.reach(tuple(b.succs(bb)), blocked_blocks=[x for x, _ in emits])
            good = good and not (r & oks)
        ctx.ob(f"pairing|{short}", good, f"{ev.split('::')[-1]} is emitted on every path from {mover.strip(':$')} to Ok: {good}", b.loc(mv[0][0]))
        for bb, t in emits:
            names = origin_names(b, t["args"][1], deep=True)
            mover_inputs = set()
            for _, mt in mv:
                for a in mt["args"]:
                    mover_inputs |= {x for x in origin_names(b, a, deep=True) if x.startswith("param:") or x.startswith("call:")}
            src = any(re.search(r"internal_take|drop_(non_)?fungible_bucket|internal_put", x) for x in names) or bool(names & mover_inputs)
            ctx.ob(f"pairing|{short}|payload", src, f"event payload originates from the moved resource ({[x for x in sorted(names) if 'call:' in x][:4]})", b.loc(bb))
    ctx.floor("balance-movers", len(movers), 12)

    ctx.rule("T2: LiquidFungibleResource::take_by_amount subtracts only on the `amount < amount_to_take` == false arm (InsufficientBalance "
             "otherwise); LiquidNonFungibleResource::take_by_ids fails on a missing id")
    n1 = RES + "LiquidFungibleResource::take_by_amount"
    if ctx.anchor(n1):
        b = ctx.body(n1)
        subs = call_blocks(b, r"Decimal::checked_sub$|CheckedSub.*::checked_sub$")
        g = G_not_less(lambda a: a.kind == "param" and a.what == 1 and a.proj[-1:] == (".amount",), lambda a: a.kind == "param" and a.what == 2 and not a.proj,
                       "self.amount >= amount_to_take (any syntactic form)")
        check_guarded(ctx, "take_by_amount|insufficient-balance-guard", b, subs + b.ok_exits(), [g], "balance subtraction / Ok")
        live = any(v.endswith("ResourceError::InsufficientBalance") for v in b.fn.vars)
        ctx.ob("take_by_amount|InsufficientBalance-live", live, "InsufficientBalance is constructed", b.loc())
    n2 = RES + "LiquidNonFungibleResource::take_by_ids"
    if ctx.anchor(n2):
        b = ctx.body(n2)
        gs = b.call_bool_guards(r"::swap_remove$")
        ok = bool(gs) and all(doomed(b, fal) for bb, tru, fal, si in gs)
        ctx.ob("take_by_ids|missing-id-arm-doomed", ok, "the `id was not present` arm of swap_remove cannot reach Ok (MissingNonFungibleLocalId)", b.loc())
    import c10
    c10.check_amount_validity(ctx)
    ctx.assume("the global sum over a history, non-negativity as a value fact and NF count = number of ids are not decided")
