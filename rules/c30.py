"""C30 Decompiled manifests compile back to the same manifest — instruction table agreement between decompiler, parser and generator."""
import re
from lib import *

M = "radix_transactions::manifest::"
MI = M + "manifest_instructions::"
FROM_IDENT = M + "parser::InstructionIdent::from_ident"


def ident_table(b, enum):
    """string pattern -> InstructionIdent variant, from `match ident { "X" => InstructionIdent::V, .. }`"""
    out = {}
    for sb in b.switches():
        si = b.switch_info(sb)
        if not si or si["kind"] != "bool":
            continue
        for a in si["atoms"]:
            if a.kind == "call" and re.search(r"<str as core::cmp::PartialEq(<str>)?>::eq$", a.what):
                pat = None
                for o in a.extra["args"]:
                    if o[0] == "k" and o[1].get("v"):
                        pat = o[1]["v"]
                if pat is None:
                    continue
                # variant constructed on the `equal` edge before re-joining
                region = b.reach((si["true"],), blocked_blocks=[sb])
                vs = set()
                blk = si["true"]
                for _ in range(3):
                    for s in b.stmts(blk):
                        if s["k"] == "=" and s["rv"]["k"] == "agg" and s["rv"].get("adt") == enum:
                            vs.add(s["rv"]["var"])
                    nx = b.succs(blk)
                    if vs or len(nx) != 1:
                        break
                    blk = nx[0]
                out[pat] = vs
    return out


def run(ctx):
    F = ctx.F
    ENUM = M + "parser::InstructionIdent"
    idents = {k.split(" as ")[0].lstrip("<").rsplit("::", 1)[-1]: v for k, v in F.strconsts.items() if k.endswith("ManifestInstruction>::IDENT")}
    ids = {k.split(" as ")[0].lstrip("<").rsplit("::", 1)[-1]: v for k, v in F.consts.items() if k.endswith("ManifestInstruction>::ID")}
    ctx.rule("T8: the IDENT strings and the ID discriminators of all ManifestInstruction impls are pairwise distinct")
    ctx.floor("instruction-types", len(idents), 35)
    ctx.ob("idents|pairwise-distinct", len(set(idents.values())) == len(idents), f"{len(idents)} instruction idents, {len(set(idents.values()))} distinct")
    ctx.ob("ids|pairwise-distinct", len(ids) == len(idents) and len(set(ids.values())) == len(ids), f"{len(ids)} instruction discriminators, {len(set(ids.values()))} distinct")

    ctx.rule("T8: every instruction type's IDENT is recognised by the parser (InstructionIdent::from_ident maps each pattern to exactly one "
             "variant, patterns pairwise distinct), every InstructionIdent variant is produced by some pattern, and the generator's match over "
             "InstructionIdent has no catch-all")
    if ctx.anchor(FROM_IDENT):
        b = ctx.body(FROM_IDENT)
        tbl = ident_table(b, ENUM)
        ctx.floor("from_ident|patterns", len(tbl), 60)
        amb = {p: v for p, v in tbl.items() if len(v) != 1}
        ctx.ob("from_ident|each-pattern-one-variant", not amb, f"patterns without a unique variant: {amb or 'none'}", b.loc())
        missing = {t: s for t, s in idents.items() if s not in tbl}
        ctx.ob("from_ident|knows-every-instruction-ident", not missing, f"instruction idents the parser does not recognise: {missing or 'none'}", b.loc())
        produced = set().union(*tbl.values()) if tbl else set()
        allv = set(F.enums.get(ENUM, {}).values())
        ctx.ob("from_ident|every-variant-reachable", allv <= produced, f"InstructionIdent variants no pattern produces: {sorted(allv - produced)}", b.loc())
        # the variant chosen for T::IDENT is the variant named after T
        wrong = {t: sorted(tbl[s]) for t, s in idents.items() if s in tbl and tbl[s] != {t}}
        ctx.ob("from_ident|ident-maps-to-own-variant", not wrong, f"instruction idents mapped to a differently named variant: {wrong or 'none'}", b.loc())
        ctx.sample({"patterns": len(tbl), "examples": sorted(list(tbl.items()))[:5]})
        # aliases: every string the decompiler can emit as a command is a parser pattern
        emitted = set()
        for f in F.fns.values():
            if (f.name.startswith("<" + MI) and f.name.endswith("ManifestInstruction>::decompile")) or f.name.startswith(M + "decompiler::") \
                    or re.match(re.escape(MI) + r"\w+::decompile_header", f.name):
                for s in f.strs:
                    if re.fullmatch(r"[A-Z][A-Z0-9_]{3,}", s):
                        emitted.add(s)
        unknown = sorted(s for s in emitted if s not in tbl)
        ctx.floor("decompiler|emitted-command-strings", len(emitted), 20)
        ctx.ob("decompiler|emits-only-known-commands", not unknown, f"upper-case command strings in decompile() bodies that the parser does not recognise: {unknown or 'none'}")
    gen = [n for n in F.fns if re.match(re.escape(M) + r"generator::generate_instruction$", n)]
    for g in gen:
        for b in ctx.bodies_of(g):
            gs = b.enum_guards(re.escape(ENUM) + "$")
            for bb, ed, ow, si in gs:
                if len(ed) >= 20:
                    full = set(F.enums.get(ENUM, {}).values())
                    pseudo = {"UseChild", "UsePreallocatedAddress"}
                    ctx.ob("generator|handles-every-ident", (ow is None and set(ed) >= full - pseudo) or set(ed) >= full - pseudo, f"generator arms: {len(ed)} of {len(full)} variants; otherwise={ow}", b.loc(bb))
    ctx.rule("T8: each instruction's decompile() names its own IDENT (or, for the call instructions, one of the audited aliases)")
    n_dec = 0
    for f in F.fns.values():
        m = re.match(r"^<" + re.escape(MI) + r"(\w+) as .*ManifestInstruction>::decompile$", f.name)
        if not m:
            continue
        n_dec += 1
        t = m.group(1)
        own = "<" + MI + t + " as " + MI + "ManifestInstruction>::IDENT"
        bodies = ctx.bodies_of(f.name)
        hdr = MI + t + "::decompile_header"
        if hdr in F.fns and any(x.calls(re.escape(hdr) + "$") for x in bodies):
            bodies = bodies + ctx.bodies_of(hdr)
        cs = {c for x in bodies for c in x.fn.consts if c.endswith("ManifestInstruction>::IDENT")}
        others = cs - {own}
        ctx.ob(f"decompile|{t}|own-ident", own in cs and not others, f"{t}::decompile mentions IDENT consts {sorted(c.split(' as ')[0].split('::')[-1] for c in cs)}", f.loc())
    ctx.floor("decompile-impls", n_dec, 35)
    ctx.rule("T2 alias agreement: the decompiler prints the NonFungibleGlobalId(\"..\") alias only for a tuple whose length was tested == 2 — the "
             "compiler turns that alias into exactly a 2-field tuple, so aliasing a longer tuple drops fields on the way back")
    fn_ = [x for x in F.fns if x.endswith("data::formatter::format_manifest_value")]
    ctx.ob("nf-global-id-alias|anchor", len(fn_) == 1, f"format_manifest_value: {len(fn_)}")
    for x in fn_[:1]:
        fb = ctx.body(x)
        tg = call_blocks(fb, r"NonFungibleGlobalId::new$")
        check_guarded(ctx, "nf-global-id-alias|only-for-2-tuples", fb, tg, [G_bin("Eq", [r"::len$"], [r"^const:2$"], "fields.len() == 2", True)],
                      "construction of the NonFungibleGlobalId alias", min_targets=1)
    ctx.assume("value formatting / parsing round-trip for arbitrary argument values, and alias argument re-mapping, are value-level and not decided")
