"""C16 Database key mapping is reversible and preserves sorted-index order — writer/reader layout agreement (T8/T9)."""
import re
from lib import *

M = "radix_substate_store_interface::db_key_mapper::"
SP = M + "SpreadPrefixKeyMapper"
IMPL = "<" + SP + " as " + M + "DatabaseKeyMapper>::"


def range_consts(b):
    """[(kind, operand)] for Range aggregates used as slice indexes: RangeTo.end / RangeFrom.start / Range.start,end"""
    out = []
    for i in range(b.n):
        for s in b.stmts(i):
            if s["k"] == "=" and s["rv"]["k"] == "agg" and str(s["rv"].get("adt", "")).startswith("core::ops::range::Range"):
                out.append((s["rv"]["adt"].rsplit("::", 1)[-1], s["rv"]["fields"], s["rv"]["ops"]))
    return out


def array_agg_ops(b):
    for i in range(b.n):
        for s in b.stmts(i):
            if s["k"] == "=" and s["rv"]["k"] == "agg" and s["rv"].get("ak") == "array":
                return s["rv"]["ops"]
    return None


def run(ctx):
    F = ctx.F
    ctx.rule("T9: to_hash_prefixed and from_hash_prefixed cut at the same named constant HASHED_PREFIX_LENGTH; the prefix is the hash of the "
             "plain bytes and comes first, the plain bytes follow unchanged")
    w, r = SP + "::to_hash_prefixed", SP + "::from_hash_prefixed"
    if ctx.anchor(w) and ctx.anchor(r):
        bw, br = ctx.body(w), ctx.body(r)
        cw = [(k, o) for k, f, ops in range_consts(bw) for o in ops]
        cr = [(k, o) for k, f, ops in range_consts(br) for o in ops]
        dw = {o[1].get("def") for k, o in cw if o[0] == "k"}
        dr = {o[1].get("def") for k, o in cr if o[0] == "k"}
        ctx.ob("hash-prefix|same-constant", len(dw) == 1 and dw == dr and next(iter(dw), "") and str(next(iter(dw))).endswith("HASHED_PREFIX_LENGTH"),
               f"writer cuts at {dw} (RangeTo), reader at {dr} (RangeFrom)", bw.loc())
        ctx.ob("hash-prefix|range-kinds", [k for k, _ in cw] == ["RangeTo"] and [k for k, _ in cr] == ["RangeFrom"], f"writer ranges {[k for k,_ in cw]}, reader ranges {[k for k,_ in cr]}", br.loc())
        ops = array_agg_ops(bw)
        if ops and len(ops) == 2:
            n0, n1 = origin_names(bw, ops[0], deep=True), origin_names(bw, ops[1], deep=True)
            ctx.ob("hash-prefix|hash-first-then-plain", any(x.endswith("::hash") or "hash::hash" in x for x in n0) and n1 == {"param:1"},
                   f"concat([{sorted(n0)[:3]}, {sorted(n1)}])", bw.loc())
        else:
            ctx.ob("hash-prefix|hash-first-then-plain", False, "concat of two slices not found in to_hash_prefixed", bw.loc())
        ctx.ob("hash-prefix|constant-positive", F.consts.get(SP + "::HASHED_PREFIX_LENGTH", 0) > 0, f"HASHED_PREFIX_LENGTH = {F.consts.get(SP + '::HASHED_PREFIX_LENGTH')}")

    ctx.rule("T8: every *_to_db_sort_key / to_db_node_key uses to_hash_prefixed exactly where its *_from_* twin uses from_hash_prefixed")
    for a, bname, hashed in (("map_to_db_sort_key", "map_from_db_sort_key", True), ("to_db_node_key", "from_db_node_key", True),
                             ("sorted_to_db_sort_key", "sorted_from_db_sort_key", True), ("field_to_db_sort_key", "field_from_db_sort_key", False)):
        na, nb = IMPL + a, IMPL + bname
        if ctx.anchor(na) and ctx.anchor(nb):
            ba, bb_ = ctx.body(na), ctx.body(nb)
            ua, ub = bool(ba.calls(re.escape(w) + "$")), bool(bb_.calls(re.escape(r) + "$"))
            ctx.ob(f"mirror|{a}", ua == hashed and ub == hashed, f"{a} uses to_hash_prefixed: {ua}; {bname} uses from_hash_prefixed: {ub}; expected {hashed}", ba.loc())

    ctx.rule("T9: sorted_to_db_sort_key puts the fixed-size sort prefix first (then the hash-prefixed key); sorted_from_db_sort_key splits at "
             "the array length of SortedKey.0's type on both sides")
    na, nb = IMPL + "sorted_to_db_sort_key", IMPL + "sorted_from_db_sort_key"
    if na in F.fns and nb in F.fns:
        ba, bb_ = ctx.body(na), ctx.body(nb)
        ops = array_agg_ops(ba)
        if ops and len(ops) == 2:
            a0 = ba.origins(ops[0], deep=True)
            a1 = ba.origins(ops[1], deep=True)
            first = any(a.kind == "param" and ".0" in a.proj for a in a0) and not any(a.kind == "call" and a.what.endswith("to_hash_prefixed") for a in a0)
            second = any(a.kind == "call" and a.what.endswith("to_hash_prefixed") for a in a1)
            ctx.ob("sorted|prefix-first", first and second, "concat([sorted_key.0, to_hash_prefixed(sorted_key.1)]) in that order", ba.loc())
        else:
            ctx.ob("sorted|prefix-first", False, "two-element concat not found", ba.loc())
        rc = range_consts(bb_)
        vals = {(k, bb_.const_value(o)) for k, f, ops_ in rc for o in ops_}
        m = re.search(r"\(\[u8; (\d+)", bb_.locals[0][0])
        alen = int(m.group(1)) if m else None
        ok = alen is not None and vals == {("RangeTo", alen), ("RangeFrom", alen)}
        ctx.ob("sorted|split-at-prefix-length", ok, f"reader ranges {sorted(vals, key=str)}; SortedKey.0 is [u8; {alen}]", bb_.loc())
    ctx.rule("T6: audited panic surface of SpreadPrefixKeyMapper — the reader side may only panic where the key cannot have been produced by the "
             "writer side (slicing off the fixed-length prefix); a further assert / unwrap on the remaining length is a key the writer emits "
             "(e.g. an empty map key: prefix only) that no longer maps back")
    bodies_k = [ctx.body(nm) for nm, f_ in sorted(F.fns.items()) if "db_key_mapper" in f_.mod and "SpreadPrefixKeyMapper" in nm]
    audited_k = {
        r"DatabaseKeyMapper>::field_from_db_sort_key$": {"index:alloc::vec::Vec": (1, "field keys are exactly one byte (written by field_to_db_sort_key)")},
        r"DatabaseKeyMapper>::sorted_from_db_sort_key$": {"index:alloc::vec::Vec[range]": (2, "the two sort-prefix bytes and the rest, written by sorted_to_db_sort_key")},
        r"SpreadPrefixKeyMapper::from_hash_prefixed$": {"index:[T][range]": (1, "drops the fixed HASHED_PREFIX_LENGTH bytes written by to_hash_prefixed (a prefix-only key yields the empty payload)")},
        r"SpreadPrefixKeyMapper::to_hash_prefixed$": {"index:[T; N/#2][range]": (1, "takes HASHED_PREFIX_LENGTH <= 32 bytes of a 32-byte hash")},
    }
    tot_k, dis_k, lis_k = check_panic_surface(ctx, "key-mapper-panic-surface", [x for x in bodies_k if x is not None], audited_k, what="database key mapper")
    ctx.floor("key-mapper-panic-surface|functions", len(bodies_k), 10)
    ctx.assume("injectivity / round-trip as equalities and order preservation are value-level; only the layout agreement that implies them is checked")
