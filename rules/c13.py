"""C13 Substate locks are exclusive for writers — guard / pairing / who-may clauses."""
import re
from lib import *

M = "radix_engine::kernel::substate_locks"
LS = M + "::SubstateLockState"
SL = M + "::SubstateLocks"
IO = "radix_engine::kernel::substate_io::SubstateIO"


def zero_readers_guard(body):
    """branches that compare the reader count (Read(n)) with 0 -> pass edge = 'n == 0'"""
    edges, blocks = [], []
    for bb in body.switches():
        si = body.switch_info(bb)
        if si["kind"] == "bool":
            for a in si["atoms"]:
                if a.kind != "bin":
                    continue
                rv = a.extra
                ops = [rv["a"], rv["b"]]
                zero = [o for o in ops if o[0] == "k" and o[1].get("v") == "0"]
                other = [o for o in ops if o[0] != "k"]
                if not zero or not other:
                    continue
                oa = body.origins(other[0])
                if not any("@Read" in x.proj for x in oa):
                    continue
                op = rv["op"]
                zero_first = ops[0][0] == "k"
                # truth value of the comparison that means "n == 0"
                if op == "Eq":
                    pv = True
                elif op == "Ne":
                    pv = False
                elif (op == "Gt" and not zero_first) or (op == "Lt" and zero_first):
                    pv = False
                elif (op == "Le" and not zero_first) or (op == "Ge" and zero_first):
                    pv = True
                else:
                    continue
                edges.append((bb, si["true"] if pv else si["false"]))
                blocks.append(bb)
        elif si["kind"] == "int" and any("@Read" in x.proj for x in si["atoms"]):
            if "0" in si["edges"]:
                edges.append((bb, si["edges"]["0"]))
                blocks.append(bb)
    return edges, blocks


def read_only_false_guard(body):
    edges, blocks = [], []
    for bb, tru, fal, si in body.bool_guards(lambda a: a.kind == "param" and a.what == 2):
        edges.append((bb, fal))
        blocks.append(bb)
    return edges, blocks


def run(ctx):
    F = ctx.F
    ctx.rule("T2: in SubstateLockState::try_lock the Write state is assigned only on the path "
             "(current state is Read) AND (read_only is false) AND (reader count == 0)")
    if ctx.anchor(LS + "::try_lock"):
        b = ctx.body(LS + "::try_lock")
        targets = agg_blocks(b, re.escape(LS) + "$", "Write")
        check_guarded(ctx, "try_lock|write-state", b, targets, [
            G_enum(re.escape(LS) + "$", ["Read"]),
            G_custom(read_only_false_guard, "read_only == false"),
            G_custom(zero_readers_guard, "reader count == 0"),
        ], "assignment of SubstateLockState::Write")
        # the read-lock increment must not be reachable from the Write arm either
        incs = [i for i in range(b.n) if b.term(i)["k"] == "assert" and b.term(i)["ak"].startswith("Overflow(Add)")]
        check_guarded(ctx, "try_lock|read-increment", b, incs, [G_enum(re.escape(LS) + "$", ["Read"])],
                      "reader-count increment", min_targets=1)
        # Write arm is doomed: from the Write edge no Ok exit is reachable
        for bb, ed, ow, si in b.enum_guards(re.escape(LS) + "$"):
            w = ed.get("Write", ow)
            oks = set(b.ok_exits())
            r = b.reach((w,)) if w is not None else set()
            ctx.ob("try_lock|write-arm-doomed", w is not None and not (r & oks),
                   "the arm for an already write-locked substate can only return Err", b.loc(bb))

    ctx.rule("T2: SubstateLocks::lock hands out a handle / counts the lock only after try_lock succeeded, "
             "and forwards its read_only parameter unchanged")
    if ctx.anchor(SL + "::lock"):
        b = ctx.body(SL + "::lock")
        g = [G_try(re.escape(LS) + "::try_lock$")]
        check_guarded(ctx, "lock|handle", b, call_blocks(b, re.escape(SL) + "::new_lock_handle$"), g,
                      "creation of a lock handle")
        somes = [bb for bb, k in b.ret_assignments() if k == "Some"]
        check_guarded(ctx, "lock|some", b, somes, g, "return of Some(handle)")
        for bb, t in b.calls(re.escape(LS) + "::try_lock$"):
            at = b.origins(t["args"][1])
            ok = any(a.kind == "param" and a.what == 5 for a in at) and all(a.kind in ("param",) for a in at)
            ctx.ob("lock|read_only-forwarded", ok, f"try_lock's read_only argument originates from {at}", b.loc(bb))
        # pairing: exactly one increment in lock, one decrement in unlock
        incs = [i for i in range(b.n) if b.term(i)["k"] == "assert" and b.term(i)["ak"].startswith("Overflow(Add)<usize>")]
        check_guarded(ctx, "lock|count-increment", b, incs, g, "node_num_locked increment", min_targets=1)
    if ctx.anchor(SL + "::unlock"):
        b = ctx.body(SL + "::unlock")
        decs = [i for i in range(b.n) if b.term(i)["k"] == "assert" and b.term(i)["ak"].startswith("Overflow(Sub)<usize>")]
        rets = b.returns()
        # every path to return passes a decrement and the state unlock
        un = call_blocks(b, re.escape(LS) + "::unlock$")
        ok1 = bool(decs) and not (b.reach((0,), blocked_blocks=decs) & set(rets))
        ok2 = bool(un) and not (b.reach((0,), blocked_blocks=un) & set(rets))
        ctx.ob("unlock|count-decrement", ok1, "every path through SubstateLocks::unlock decrements node_num_locked", b.loc())
        ctx.ob("unlock|state-unlock", ok2, "every path through SubstateLocks::unlock releases the substate lock state", b.loc())

    ctx.rule("T4: lock state and counters are written only inside kernel::substate_locks")
    fields = [SL + ".substate_lock_states", SL + ".node_num_locked", SL + ".locks", LS + "::Read.0"]
    writers = {}
    for f in F.fns.values():
        if any(x in f.fw for x in fields) or any(v == LS + "::Write" for v in f.vars):
            writers[f.root] = f
    check_who_may(ctx, "who-writes-lock-state", writers,
                  {r"^radix_engine::kernel::substate_locks::": "owning module",
                   r"^<radix_engine::kernel::substate_locks::SubstateLockState as ": "derived impls (Clone/Sbor decode) of the state enum"},
                  "writer of substate lock state")
    ctx.floor("who-writes-lock-state", len(writers), 3)
    callers = who_calls(F, re.escape(LS) + r"::(try_lock|unlock)$")
    check_who_may(ctx, "who-calls-try_lock", callers, {r"^radix_engine::kernel::substate_locks::SubstateLocks::": "owning type"},
                  "caller of SubstateLockState::{try_lock,unlock}")
    ctx.floor("who-calls-try_lock", len(callers), 2)

    ctx.rule("T2: SubstateIO::open_substate derives the lock kind from the MUTABLE flag and fails when the lock is refused; "
             "write/set/remove/drop/move are behind their lock tests")
    if ctx.anchor(IO + "::open_substate"):
        b = ctx.body(IO + "::open_substate")
        lc = b.calls(re.escape(SL) + "::lock$")
        ctx.floor("open_substate|lock-call", len(lc), 1)
        for bb, t in lc:
            neg, inner = b.peel_not(t["args"][4])
            at = b.origins(inner)
            good = neg and any(a.kind == "call" and a.what.endswith("LockFlags::contains")
                               and any(x.kind == "const" and str(x.what).endswith("LockFlags::MUTABLE")
                                       for x in b.origins(a.extra["args"][1])) for a in at)
            ctx.ob("open_substate|read_only-is-not-MUTABLE", good,
                   f"read_only argument of SubstateLocks::lock is {'!' if neg else ''}{at}", b.loc(bb))
        check_guarded(ctx, "open_substate|ok", b, b.ok_exits(), [G_try(re.escape(SL) + "::lock$")], "Ok((handle, value)) return")
    if ctx.anchor(IO + "::write_substate"):
        b = ctx.body(IO + "::write_substate")
        t = call_blocks(b, r"::(heap::Heap|track::interface::CommitableSubstateStore)::set_substate$|::set_substate$")
        check_guarded(ctx, "write_substate|mutable", b, t, [G_custom(lambda body: flag_guard(body, "MUTABLE", True), "flags.contains(MUTABLE) == true")],
                      "heap/store set_substate in write_substate", min_targets=2)
    for fn, n in (("set_substate", 2), ("remove_substate", 2)):
        if ctx.anchor(IO + "::" + fn):
            b = ctx.body(IO + "::" + fn)
            t = call_blocks(b, r"::" + fn + "$")
            check_guarded(ctx, f"{fn}|not-locked", b, t, [G_bool_call(re.escape(SL) + "::is_locked$", False)],
                          f"heap/store {fn}", min_targets=n)
    if ctx.anchor(IO + "::drop_node"):
        b = ctx.body(IO + "::drop_node")
        t = call_blocks(b, r"::heap::Heap::remove_node$")
        check_guarded(ctx, "drop_node|node-not-locked", b, t, [G_bool_call(re.escape(SL) + "::node_is_locked$", False)],
                      "heap remove_node in drop_node")
    if ctx.anchor(IO + "::move_partition"):
        b = ctx.body(IO + "::move_partition")
        t = call_blocks(b, r"::(remove_substate|remove_module|set_substate|create_node|insert_partition|remove_partition)\b")
        check_guarded(ctx, "move_partition|nodes-not-locked", b, t, [G_bool_call(re.escape(SL) + "::node_is_locked$", False)],
                      "partition move mutations")
    # observation, not an obligation (see DESIGN.md C13)
    ctx.note("SubstateIO::drain_substates carries a TODO (no lock test); the property speaks about handles, not drains: recorded, not checked")
    ctx.assume("counting invariant over arbitrary lock/unlock sequences is not decided (value-level)")


def flag_set(body, op, depth=0):
    """the set of LockFlags constant names an operand denotes: a named constant, or `A | B` / `A.union(B)` of such; None if unknown"""
    ats = body.origins(op)
    if not ats or depth > 3:
        return None
    out = set()
    for a in ats:
        if a.kind == "const" and "LockFlags::" in str(a.what):
            out.add(str(a.what).rsplit("::", 1)[-1])
        elif a.kind == "call" and re.search(r"BitOr(<[^>]*>)?>::bitor$|LockFlags::union$", a.what):
            for arg in a.extra["args"][:2]:
                sub = flag_set(body, arg, depth + 1)
                if sub is None:
                    return None
                out |= sub
        else:
            return None
    return out or None


def flag_guard(body, flag, want):
    """branch that establishes `flag` is set (want=True) / not set (want=False) in a LockFlags value, in any of the bitflags forms:
    contains(S): true => every flag of S is set; false => `flag` not set only if S == {flag}
    intersects(S): false => no flag of S is set; true => `flag` set only if S == {flag}"""
    edges, blocks = [], []
    for bb, tru, fal, si in body.call_bool_guards(r"LockFlags::(contains|intersects)$"):
        for a in si["atoms"]:
            if a.kind != "call" or not re.search(r"LockFlags::(contains|intersects)$", a.what):
                continue
            fs = flag_set(body, a.extra["args"][1])
            if not fs or flag not in fs:
                continue
            is_contains = a.what.endswith("::contains")
            if is_contains and want:
                edges.append((bb, tru)); blocks.append(bb)
            elif is_contains and not want and fs == {flag}:
                edges.append((bb, fal)); blocks.append(bb)
            elif not is_contains and not want:
                edges.append((bb, fal)); blocks.append(bb)
            elif not is_contains and want and fs == {flag}:
                edges.append((bb, tru)); blocks.append(bb)
    return edges, blocks
