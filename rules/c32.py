"""C32 Transaction identifiers commit to the whole transaction — canonical-form gates on every prepare path; hash covers what is
decoded by construction."""
import re
from lib import *

P = "radix_transactions::model::preparation::"
TD = P + "decoder::TransactionDecoder"
DIGEST = r"summarized_composite::ConcatenatedDigest::prepare_|summarized_raw::Summarized|::hash::hash$|TransactionPreparableFromValue(Body)?(>)?::prepare_from_value(_body)?$|PreparedTransaction(>)?::prepare_from_transaction_enum$|::prepare$"


def run(ctx):
    F = ctx.F
    ctx.rule("T2: both payload-preparation entries (PreparedTransaction::prepare, TransactionPartialPrepare::prepare_partial) return Ok only "
             "past decoder construction (size + payload-prefix gates), the prepare_from_* call and TransactionDecoder::check_complete; "
             "new_transaction applies check_len and the prefix check; check_complete is check_end")
    for n, ctor in ((P + "traits::PreparedTransaction::prepare", "new_transaction"), (P + "traits::TransactionPartialPrepare::prepare_partial", "new_partial")):
        if ctx.anchor(n):
            b = ctx.body(n)
            check_guarded(ctx, f"{n.rsplit('::',1)[1]}|gates", b, b.ok_exits(), [
                G_try(re.escape(TD) + "::" + ctor + "$"), G_try(re.escape(TD) + r"::check_complete$"),
                G_try(r"::prepare_from_transaction_enum$|::prepare_from_value$")], "Ok(prepared)")
            for bb, t in b.calls(re.escape(TD) + r"::check_complete$"):
                ctx.ob(f"{n.rsplit('::',1)[1]}|completes-the-same-decoder", any(ctor in x for x in origin_names(b, t["args"][0], deep=True)),
                       "check_complete is applied to the decoder that did the decoding", b.loc(bb))
    n = TD + "::new_transaction"
    if ctx.anchor(n):
        b = ctx.body(n)
        check_guarded(ctx, "new_transaction|size-and-prefix", b, b.ok_exits(), [G_try(r"PreparationSettingsV1::check_len$"), G_try(r"::read_and_check_payload_prefix$")], "Ok(decoder)")
        for bb, t in b.calls(r"PreparationSettingsV1::check_len$"):
            ctx.ob("new_transaction|len-of-payload", any(x.endswith("::len") for x in origin_names(b, t["args"][2], deep=True)) and "param:1" in origin_names(b, t["args"][2], deep=True),
                   "check_len receives payload.len()", b.loc(bb))
    n = TD + "::new_partial"
    if ctx.anchor(n):
        b = ctx.body(n)
        check_guarded(ctx, "new_partial|prefix", b, b.ok_exits(), [G_try(r"::read_and_check_payload_prefix$")], "Ok(decoder)")
    n = TD + "::check_complete"
    if ctx.anchor(n):
        b = ctx.body(n)
        check_guarded(ctx, "check_complete|check_end", b, b.ok_exits(), [G_try(r"Decoder(>)?::check_end$")], "Ok(())")
    ctx.rule("T7: every PrepareError variant is produced; every PreparationSettings limit feeds a rejecting branch")
    check_variants_live(ctx, "PrepareError", P + "decoder::PrepareError", r"radix_transactions::", conditional=False)
    for fld in ("max_user_payload_length", "max_ledger_payload_length", "max_child_subintents_per_intent", "max_subintents_per_transaction", "max_blobs"):
        check_limit_enforced(ctx, "preparation-limit", P + "decoder::PreparationSettingsV1", fld, r"^(<)?radix_transactions::")
    fields = set(struct_fields(ctx, P + "decoder::PreparationSettingsV1"))
    known = {"v2_transactions_permitted", "max_user_payload_length", "max_ledger_payload_length", "max_child_subintents_per_intent", "max_subintents_per_transaction", "max_blobs"}
    ctx.ob("preparation-settings|fields-classified", bool(fields) and fields <= known, f"unclassified PreparationSettings fields: {sorted(fields - known)}")

    ctx.rule("T4 coverage by construction: every prepare_from_transaction_enum / prepare_from_value(_body) impl obtains its Summary from a "
             "digest primitive (ConcatenatedDigest::prepare_*, SummarizedRaw*, hash of the consumed bytes) or by delegating to another prepare; "
             "the returned struct's summary originates from that call; a second un-hashed decode of a field is absent")
    impls = [f for f in F.fns.values() if f.crate == "radix_transactions" and f.kind == "AssocFn" and
             re.search(r"::(prepare_from_transaction_enum|prepare_from_value_body|prepare_from_value)$", f.name) and f.timpl]
    ctx.floor("prepare-impls", len(impls), 35)
    for f in sorted(impls, key=lambda x: x.name):
        bodies = ctx.bodies_of(f.name)
        calls = [c[0] for x in bodies for c in x.fn.calls]
        dig = [c for c in calls if re.search(DIGEST, c)]
        short = f.name.replace("radix_transactions::model::", "").replace("preparation::traits::", "")[:110]
        # raw decodes of transaction data outside the digest primitives
        raw = [c for c in calls if re.search(r"TransactionDecoder::(decode|decode_deeper_body_with_value_kind)$", c)]
        is_prim = "summarized_raw" in f.name
        if f.name.startswith("<" + P + "summarized_raw::RawHash as "):
            ctx.ob(f"summary-by-construction|{short}", True, "RawHash: the decoded value IS a hash that becomes the summary hash and is concatenated into the parent's digest (audited exemption)", f.loc())
            continue
        # a raw decode is fine when the decoded value is only used as the receiver of `.prepare(..)` (re-encoded and hashed there)
        if raw:
            fine = True
            for x in bodies:
                for bb, t in x.calls(r"TransactionDecoder::(decode|decode_deeper_body_with_value_kind)$"):
                    d = t["d"][0]
                    prep = [tt for _, tt in x.calls(r"::prepare$") if any("TransactionDecoder::decode" in n for n in origin_names(x, tt["args"][0], deep=True))]
                    fine = fine and bool(prep)
            if fine:
                raw = []
        ok = bool(dig) and (is_prim or not raw)
        ctx.ob(f"summary-by-construction|{short}", ok, f"digest primitive(s): {sorted(set(d.split('::')[-1] for d in dig))[:3]}; un-hashed decodes: {sorted(set(raw)) or 'none'}", f.loc())
    # the digest primitives hash exactly the bytes they consume
    for nm in [x for x in F.fns if re.search(r"summarized_raw::Summarized\w+ as .*>::prepare_from_value(_body)?$", x)]:
        b = ctx.body(nm)
        hs = b.calls(r"::hash::hash$")
        ok = bool(hs) and all(any(re.search(r"get_slice_with_valid_bounds|get_input_slice|get_offset|::get_slice", x) or "TransactionDecoder" in x for x in origin_names(b, t["args"][0], deep=True)) for _, t in hs)
        ctx.ob(f"raw-hash-covers-consumed-bytes|{nm.split(' as ')[0].split('::')[-1]}", ok, "hash input originates from the decoder's consumed slice", b.loc())
    ctx.rule("T1/T2 canonical-collection rule in the preparation code: no prepare impl builds a set/map by `collect`/`from_iter`/`extend` (which drop "
             "repeated elements silently while the summary hash still covers them); the children set of an intent is filled by IndexSet::insert "
             "whose `already present` arm is doomed (DuplicateKey), and every decoded child passes that test")
    SETS = r"IndexSet|IndexMap|BTreeSet|BTreeMap|HashSet|HashMap"
    alive = 0
    offenders = []
    for name, f in sorted(F.fns.items()):
        for c in f.calls:
            if re.search(r"::collect$|::from_iter$|::extend$", c[0]) and re.search(SETS, c[5] if len(c) > 5 else ""):
                alive += 1
    # in scope the untruncated generic arguments of the call are read from the full body
    for name, f in sorted(F.fns.items()):
        if f.mod.startswith("radix_transactions::model") and re.search(r"::prepare(_from_value(_body)?|_from_transaction_enum|_partial)?$", f.root):
            for bb, t in ctx.body(name).calls(r"::collect$|::from_iter$|::extend$"):
                bx = ctx.body(name)
                dst = t.get("d")
                dst_ty = bx.locals[dst[0]][0] if dst and isinstance(dst[0], int) and dst[0] < len(bx.locals) else ""
                if re.search(SETS, (t.get("ga") or "") + " " + str(dst_ty)):
                    offenders.append((name, t["f"].rsplit("::", 1)[-1], f.loc()))
    ctx.floor("canonical-collections|detector-alive (set/map collects anywhere in the fact db)", alive, 20)
    ctx.ob("canonical-collections|no-dedup-collect-in-prepare", not offenders,
           "no prepare impl collects into a set/map" if not offenders else f"prepare code builds a set/map by a silently de-duplicating call: {[(n.split('::')[-3:], k) for n, k, _ in offenders][:3]}",
           offenders[0][2] if offenders else "")
    cn = [x for x in F.fns if re.search(r"PreparedChildSubintentSpecifiersV2 as .*TransactionPreparableFromValueBody>::prepare_from_value_body$", x)]
    ctx.ob("children|anchor", len(cn) == 1, f"children prepare impl: {len(cn)}")
    for x in cn[:1]:
        b = ctx.body(x)
        gs = [(bb, tru, fal) for bb, tru, fal, si in b.call_bool_guards(r"IndexSet(<[^>]*>)?::insert$") if fal is not None and doomed(b, fal)]
        ctx.ob("children|duplicate-insert-rejected", len(gs) >= 1, f"{len(gs)} IndexSet::insert test(s) whose `already present` arm cannot reach Ok", b.loc())
        loops = []
        for bb, ed, ow, si in b.enum_guards(r"core::option::Option$", lambda a: a.kind == "call" and a.what.endswith("Iterator>::next")):
            nx = [a for a in si["atoms"] if a.kind == "call" and a.what.endswith("Iterator>::next")]
            if nx and "Some" in ed:
                loops.append((nx[0].bb, ed["Some"]))
        pe = [(bb, tru) for bb, tru, fal in gs]
        okl = bool(loops) and bool(pe)
        for head, some in loops:
            region = b.reach((some,), blocked_edges=pe)
            if head in region or region & set(b.ok_exits()):
                okl = False
        ctx.ob("children|every-decoded-child-passes-the-duplicate-test", okl, "the loop over the decoded child hashes continues only through the `newly inserted` edge", b.loc())
    ctx.assume("collision-freeness and 'changing any field changes the hash' are cryptographic / value-level and not decided")
