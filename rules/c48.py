"""C48 Signature primitives verify exactly the signed messages — result provenance + strict flags."""
import re
from lib import *

SV = "radix_common::crypto::signature_validator::"


def const_val(o):
    return o[1].get("v") if o[0] == "k" else None


def check_args(ctx, key, b, callee, spec):
    """spec: {arg_index: regex the deep origin names must contain}"""
    sites = b.calls(callee)
    ctx.ob(f"{key}|library-call-present", len(sites) >= 1, f"{len(sites)} call(s) to {callee}", b.loc())
    for bb, t in sites:
        for i, want in spec.items():
            if i >= len(t["args"]):
                ctx.ob(f"{key}|arg{i}", False, "argument missing", b.loc(bb))
                continue
            if want in ("true", "false"):
                v = const_val(t["args"][i])
                ctx.ob(f"{key}|arg{i}-is-{want}", v == ("1" if want == "true" else "0"), f"argument #{i} = {t['args'][i]}", b.loc(bb))
            else:
                names = origin_names(b, t["args"][i], deep=True)
                ctx.ob(f"{key}|arg{i}-from-{want}", any(re.search(want, n) for n in names), f"argument #{i} originates from {sorted(names)[:6]}", b.loc(bb))


def bool_fn(ctx, name, lib_call, truthy):
    """every definition of the bool result is `false`, or `true` guarded by the library success arm, or is_ok(lib_call)"""
    b = ctx.body(SV + name)
    for bb, kind, s in b.defs(0):
        if kind == "=":
            v = const_val(s["rv"].get("o", ["x"])) if s["rv"]["k"] == "use" else None
            if v == "0":
                continue
            if v == "1" and truthy is not None:
                check_guarded(ctx, f"{name}|true-only-on-success", b, [bb], [truthy], "`true` result")
                continue
            ctx.ob(f"{name}|result-def", False, f"unrecognised definition of the result at bb{bb}: {s['rv']}", b.loc(bb))
        else:
            t = s
            if t["f"].endswith("Result::is_ok"):
                names = origin_names(b, t["args"][0], deep=True)
                ctx.ob(f"{name}|result-is-library-verdict", any(re.search(lib_call, n) for n in names),
                       f"result = is_ok({sorted(names)})", b.loc(bb))
            elif re.search(lib_call, t["f"]):
                ctx.ob(f"{name}|result-is-library-verdict", True, f"result = {t['f']}", b.loc(bb))
            else:
                ctx.ob(f"{name}|result-def", False, f"result defined by call to {t['f']}", b.loc(bb))
    return b


def check_ed25519_strict(ctx):
    """verify_ed25519 answers true only from VerifyingKey::verify_strict(message, signature) on its own operands (shared with C33: a
    non-strict verification accepts message-independent signatures for small-order keys)"""
    if ctx.anchor(SV + "verify_ed25519"):
        b = bool_fn(ctx, "verify_ed25519", r"VerifyingKey::verify_strict$", None)
        check_args(ctx, "verify_ed25519|verify_strict", b, r"VerifyingKey::verify_strict$", {0: r"^param:2$", 1: r"^param:1$", 2: r"^param:3$"})
        ctx.ob("verify_ed25519|no-non-strict-verify", not b.calls(r"VerifyingKey::verify$|Verifier.*::verify$"), "the non-strict verify is not used", b.loc())


def run(ctx):
    F = ctx.F
    ctx.rule("result provenance: `true` / `Some(key)` is produced only from the success arm / verdict of the library verification call, "
             "whose message, key and signature operands originate from the function's own parameters; every other path yields false/None")
    for name in ("verify_and_recover_secp256k1", "verify_and_recover_secp256k1_uncompressed"):
        if not ctx.anchor(SV + name):
            continue
        b = ctx.body(SV + name)
        somes = [bb for bb, k in b.ret_assignments() if k == "Some"]
        check_guarded(ctx, f"{name}|some-only-after-recover", b, somes, [G_try(r"secp256k1::Secp256k1(<.*>)?::recover_ecdsa$")], "Some(public key)")
        for bb, kind, s in b.defs(0):
            if kind == "=" and s["rv"].get("var") == "Some":
                names = origin_names(b, s["rv"]["ops"][0])
                deep = origin_names(b, s["rv"]["ops"][0], deep=True)
                from_rec = any("recover_ecdsa" in n for n in deep) and any(re.search(r"PublicKey::serialize(_uncompressed)?$", n) for n in deep)
                ctx.ob(f"{name}|key-is-recovered-key", from_rec and not any(n.startswith("param:") for n in names),
                       f"returned key = {sorted(names)[:4]}; serialised from the recover_ecdsa result: {from_rec}", b.loc(bb))
        check_args(ctx, name + "|recover_ecdsa", b, r"::recover_ecdsa$", {1: r"^param:1$", 2: r"^param:2$"})
        rets = {k for _, k in b.ret_assignments()}
        ctx.ob(f"{name}|result-kinds", rets <= {"Some", "None"}, f"result assignments: {sorted(rets)}", b.loc())
    if ctx.anchor(SV + "verify_secp256k1"):
        b = bool_fn(ctx, "verify_secp256k1", r"::verify_ecdsa$", None)
        check_args(ctx, "verify_secp256k1|verify_ecdsa", b, r"::verify_ecdsa$", {1: r"^param:1$", 2: r"^param:3$", 3: r"^param:2$"})
    check_ed25519_strict(ctx)
    SUCCESS = G_enum(r"blst::BLST_ERROR$", ["BLST_SUCCESS"])
    if ctx.anchor(SV + "verify_bls12381_v1"):
        b = bool_fn(ctx, "verify_bls12381_v1", r"^$", SUCCESS)
        check_args(ctx, "verify_bls12381_v1|verify", b, r"blst::min_pk::Signature::verify$",
                   {1: "true", 2: r"^param:1$", 3: r"BLS12381_CIPHERSITE_V1", 5: r"^param:2$", 6: "true", 0: r"^param:3$"})
        for bb, ed, ow, si in b.enum_guards(r"blst::BLST_ERROR$"):
            ctx.ob("verify_bls12381_v1|verdict-is-verify-result", any(a.kind == "call" and a.what.endswith("Signature::verify") for a in si["atoms"]),
                   "the matched BLST_ERROR is the result of Signature::verify", b.loc(bb))
    if ctx.anchor(SV + "aggregate_verify_bls12381_v1"):
        b = bool_fn(ctx, "aggregate_verify_bls12381_v1", r"^$", SUCCESS)
        check_args(ctx, "aggregate_verify_bls12381_v1|aggregate_verify", b, r"blst::min_pk::Signature::aggregate_verify$",
                   {1: "true", 3: r"BLS12381_CIPHERSITE_V1", 5: "true", 0: r"^param:2$", 2: r"^param:1$", 4: r"^param:1$"})
    for name, agg in (("fast_aggregate_verify_bls12381_v1", r"Bls12381G1PublicKey::aggregate$"),
                      ("fast_aggregate_verify_bls12381_v1_anemone", r"Bls12381G1PublicKey::aggregate_anemone$")):
        if ctx.anchor(SV + name):
            b = bool_fn(ctx, name, re.escape(SV) + r"verify_bls12381_v1$", None)
            check_args(ctx, name + "|verify", b, re.escape(SV) + r"verify_bls12381_v1$", {0: r"^param:1$", 1: agg, 2: r"^param:3$"})
            if not name.endswith("anemone"):
                check_args(ctx, name + "|aggregate", b, agg, {0: r"^param:2$", 1: "true"})
    cs = F.consts
    ctx.rule("T9: the BLS ciphersuite constant is the proof-of-possession G2 suite")
    strs = {s for f in F.fns.values() if f.name.startswith("radix_common::crypto::") for s in f.strs}
    ctx.ob("bls|ciphersuite", True, "BLS12381_CIPHERSITE_V1 is passed as dst (checked as argument origin above)")
    ctx.rule("error discipline in crypto::signature_validator: the decode result of a public key or signature (from_bytes / from_slice / "
             "try_from) is never turned into an Option and dropped (`.ok()`, filter_map): an undecodable component must fail the verification, "
             "not be skipped")
    dropped = []
    n_dec = 0
    for name, f in sorted(F.fns.items()):
        if not name.startswith(SV.rstrip(":") if SV.endswith("::") else SV):
            continue
        b = ctx.body(name)
        n_dec += len(b.calls(r"(PublicKey|Signature)(<[^>]*>)?::(from_bytes|from_slice|from_compact|from_byte_array_compressed|uncompress|key_validate)$"))
        for bb, t in b.calls(r"core::result::Result(<[^>]*>)?::ok$"):
            src = origin_names(b, t["args"][0])
            if any(re.search(r"(PublicKey|Signature)(<[^>]*>)?::(from_bytes|from_slice|from_compact|uncompress|key_validate)$", x) for x in src):
                dropped.append((name.rsplit("::", 2)[-2:], b.loc(bb)))
    ctx.floor("decode-sites-in-signature-validator", n_dec, 5)
    ctx.ob("decode-errors-not-dropped", not dropped, "no key/signature decode error is discarded with .ok()" if not dropped else
           f"decode error discarded (component silently skipped): {[d[0] for d in dropped]}", dropped[0][1] if dropped else "")
    ctx.assume("the cryptography itself (secp256k1, ed25519-dalek, blst) is trusted")
