"""C44 Consensus time and rounds only move forward — guard / who-may-write clauses."""
import re
from lib import *

CM = "radix_engine::blueprints::consensus_manager::consensus_manager"
BP = CM + "::ConsensusManagerBlueprint"


def payload_writes(F, payload_re):
    """callers of field_write_typed::<payload>"""
    r = re.compile(payload_re)
    out = {}
    for f in F.fns.values():
        for c in f.calls:
            if c[0].endswith("::field_write_typed") and r.search(c[5]):
                out.setdefault(f.root, []).append((f, c))
    return out


def run(ctx):
    F = ctx.F
    ctx.rule("T4: the proposer timestamp substates are written (in place or through field_write_typed) only by "
             "check_non_decreasing_and_update_timestamps; they are constructed only by create; epoch/round only by next_round/start")
    w = {}
    for f in F.fns.values():
        if any(re.search(r"::Proposer(Milli|Minute)TimestampSubstate\.epoch_(milli|minute)$", x) for x in f.fw):
            w[f.root] = f
    check_who_may(ctx, "who-writes-timestamps", w, {re.escape(BP) + r"::check_non_decreasing_and_update_timestamps$": "the guarded updater"},
                  "in-place writer of a proposer timestamp")
    ctx.floor("who-writes-timestamps", len(w), 1)
    pw = payload_writes(F, r"ConsensusManagerProposer(Milli|Minute)TimestampFieldPayload")
    check_who_may(ctx, "who-stores-timestamps", pw, {re.escape(BP) + r"::check_non_decreasing_and_update_timestamps$": "the guarded updater"},
                  "field_write_typed of a proposer timestamp payload")
    ctx.floor("who-stores-timestamps", sum(len(v) for v in pw.values()), 2)
    ctors = {f.root: f for f in F.fns.values() if any(re.search(r"::Proposer(Milli|Minute)TimestampSubstate$", s) for s in f.structs)}
    check_who_may(ctx, "who-constructs-timestamps", ctors, {
        re.escape(BP) + r"::create$": "genesis creation",
        r"^<" + re.escape(CM) + r"::Proposer(Milli|Minute)TimestampSubstate as (core::clone::Clone|sbor::)": "derived clone/decode",
    }, "constructor of a proposer timestamp substate")
    ew = {f.root: f for f in F.fns.values() if any(re.search(r"::ConsensusManagerSubstate\.(epoch|round)$", x) for x in f.fw)}
    check_who_may(ctx, "who-writes-epoch-round", ew, {re.escape(BP) + r"::(next_round|start)$": "round progression / start"},
                  "in-place writer of epoch/round")
    ctx.floor("who-writes-epoch-round", len(ew), 2)
    sw = payload_writes(F, r"ConsensusManagerStateFieldPayload")
    check_who_may(ctx, "who-stores-state", sw, {re.escape(BP) + r"::(next_round|start)$": "round progression / start"},
                  "field_write_typed of the consensus manager state")

    ctx.rule("T2: in check_non_decreasing_and_update_timestamps the milli write is reachable only when NOT(current < previous) and the "
             "stored value originates from the parameter; the minute write only when new > previous; the `current < previous` arm is doomed")
    n = BP + "::check_non_decreasing_and_update_timestamps"
    if ctx.anchor(n):
        b = ctx.body(n)
        READ = [r"^call:.*(field_read_typed|fully_update_and_into_latest_version)$"]
        writes = b.calls(r"::field_write_typed$")
        milli = [bb for bb, t in writes if "MilliTimestamp" in t["ga"]]
        minute = [bb for bb, t in writes if "MinuteTimestamp" in t["ga"]]
        check_guarded(ctx, "timestamps|milli-write", b, milli, [
            G_bin("Lt", [r"^param:1$"], READ, "current_time_ms < previous is false", False),
            G_bin("Gt", [r"^param:1$"], READ, "current_time_ms > previous is true", True)], "store of ProposerMilliTimestamp")
        check_guarded(ctx, "timestamps|minute-write", b, minute, [
            G_bin("Gt", [r"milli_to_minute$"], READ, "new minute > previous minute is true", True),
            G_bin("Lt", [r"^param:1$"], READ, "current_time_ms < previous is false", False)], "store of ProposerMinuteTimestamp")
        # Ok is unreachable on the decreasing arm
        check_guarded(ctx, "timestamps|ok", b, b.ok_exits(), [G_bin("Lt", [r"^param:1$"], READ, "current_time_ms < previous is false", False)], "Ok(()) return")
        # in-place assignments take the parameter / the rounded parameter
        for i in range(b.n):
            for s in b.stmts(i):
                if s["k"] == "=" and s["p"][-1] in (".epoch_milli", ".epoch_minute"):
                    names = origin_names(b, s["rv"].get("o") or s["p"], deep=True)
                    want = "param:1" if s["p"][-1] == ".epoch_milli" else "call:" + BP + "::milli_to_minute"
                    ctx.ob(f"timestamps|{s['p'][-1][1:]}-value", want in names, f"assigned value originates from {sorted(names)}", b.loc(i))

    ctx.rule("T2: next_round performs no state write and no epoch change before check_non_decreasing_and_update_timestamps succeeded; "
             "the round/state store is behind Round::calculate_progress succeeding (InvalidRoundUpdate otherwise)")
    n = BP + "::next_round"
    if ctx.anchor(n):
        bs = ctx.bodies_of(n)
        b = ctx.body(n)
        eff = call_blocks(b, r"::field_write_typed$|" + re.escape(BP) + r"::(epoch_change|update_proposal_statistics)$|::emit_event$")
        check_guarded(ctx, "next_round|effects-after-time-check", b, eff,
                      [G_try(re.escape(BP) + r"::check_non_decreasing_and_update_timestamps$"),
                       G_try(r"consensus_manager::Round::calculate_progress$|types::round::Round::calculate_progress$|Round::calculate_progress$")],
                      "state writes / epoch change / events in next_round", min_targets=3)
        live = any("ConsensusManagerError::InvalidRoundUpdate" in v for x in bs for v in x.fn.vars)
        ctx.ob("next_round|InvalidRoundUpdate-live", live, "InvalidRoundUpdate is constructed in next_round", b.loc())
    ctx.rule("T2: Round::calculate_progress returns Some only past a strict *ordering* test `to > from` (a signed difference compared "
             "with 0, or the two rounds compared directly); an equality / zero-distance test alone does not qualify")
    cand = [x for x in F.fns if x.endswith("Round::calculate_progress")]
    ctx.ob("calculate_progress|anchor", len(cand) == 1, f"Round::calculate_progress found: {cand}")
    if len(cand) == 1:
        b = ctx.body(cand[0])
        somes = [bb for bb, k in b.ret_assignments() if k == "Some"]
        check_guarded(ctx, "calculate_progress|some-only-if-to-greater", b, somes, [G_custom(progress_guard, "to > from (strict ordering test)")], "Some(progress)")
    ctx.assume("'+1 exactly' and minute rounding are value-level and not decided")


def _deps(body, op):
    return {a.what for a in body.origins(op, deep=True) if a.kind == "param"}


def _signed_difference(body, op):
    """if `op` is (through copies/casts) `a - b` on a signed type with a,b each depending on exactly one parameter -> (param_of_a, param_of_b)"""
    cur = op
    for _ in range(8):
        if cur[0] == "k":
            return None
        ds = [d for d in body.defs(cur[1][0])]
        if len(ds) != 1 or ds[0][1] != "=":
            return None
        rv = ds[0][2]["rv"]
        if rv["k"] in ("use", "cast"):
            cur = rv["o"]
            continue
        if rv["k"] == "bin" and rv["op"].startswith("Sub"):
            ty = body.locals[ds[0][2]["p"][0]][0]
            if not re.match(r"^\(?i(8|16|32|64|128|size)", ty):
                return None
            da, db = _deps(body, rv["a"]), _deps(body, rv["b"])
            if len(da) == 1 and len(db) == 1 and da != db:
                return next(iter(da)), next(iter(db))
            return None
        return None
    return None


def progress_guard(body):
    """pass edges of strict ordering tests establishing param#2 (to) > param#1 (from)"""
    edges, blocks = [], []
    TO, FROM = 2, 1
    for sb in body.switches():
        si = body.switch_info(sb)
        if not si or si["kind"] != "bool":
            continue
        for a in si["atoms"]:
            if a.kind != "bin" or a.what not in ("Lt", "Le", "Gt", "Ge"):
                continue
            x, y, op = a.extra["a"], a.extra["b"], a.what
            truth = None   # truth value of the comparison that means to > from
            zx, zy = body.const_value(x) == 0 and x[0] == "k", body.const_value(y) == 0 and y[0] == "k"
            if zy and not zx:
                d = _signed_difference(body, x)
                if d == (TO, FROM):       # x = to - from
                    truth = {"Gt": True, "Le": False}.get(op)
                elif d == (FROM, TO):     # x = from - to
                    truth = {"Lt": True, "Ge": False}.get(op)
            elif zx and not zy:
                d = _signed_difference(body, y)
                if d == (TO, FROM):
                    truth = {"Lt": True, "Ge": False}.get(op)
                elif d == (FROM, TO):
                    truth = {"Gt": True, "Le": False}.get(op)
            else:
                dx, dy = _deps(body, x), _deps(body, y)
                if dx == {TO} and dy == {FROM}:
                    truth = {"Gt": True, "Le": False}.get(op)
                elif dx == {FROM} and dy == {TO}:
                    truth = {"Lt": True, "Ge": False}.get(op)
            if truth is not None:
                edges.append((sb, si["true"] if truth else si["false"]))
                blocks.append(sb)
    return edges, blocks
