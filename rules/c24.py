"""C24 Decimal arithmetic is exact or reports overflow — the 'none of these operations panics' clause (audited panic surface, T6)."""
import re
from lib import *

MATH = "radix_common::math::"
TY = r"(decimal::Decimal|precise_decimal::PreciseDecimal)"
CHECKED = re.compile(r"^<" + re.escape(MATH) + TY + r" as radix_common::math::traits::Checked(Add|Sub|Mul|Div|Neg)(<.*>)?>::checked_(add|sub|mul|div|neg)$"
                     r"|^" + re.escape(MATH) + TY + r"::checked_(abs|truncate|floor|ceiling)$")
CONV = re.compile(r"^<" + re.escape(MATH) + TY + r" as core::convert::(TryFrom|From)<.*>>::(try_from|from)$"
                  r"|^<[iu](8|16|32|64|128|size) as core::convert::TryFrom<" + re.escape(MATH) + TY + r">>::try_from$")
AUDITED = {
    r" as core::convert::From<[iu](8|16|32|64|128|size)>>::from$": {"bigint-op": (1, "integer (< 2^128) times ONE (10^18 resp. 10^36) fits I192 resp. I256: 2^128*10^18 < 2^191, 2^128*10^36 < 2^255")},
    r"^<[iu](8|16|32|64|128|size) as core::convert::TryFrom<radix_common::math::(decimal::Decimal|precise_decimal::PreciseDecimal)>>::try_from$":
        {"bigint-op": (1, "division of the rounded value by the non-zero constant 10^SCALE (cannot overflow: |x| / 10^18 shrinks)")},
    r"^<radix_common::math::precise_decimal::PreciseDecimal as core::convert::From<radix_common::math::decimal::Decimal>>::from$":
        {"bigint-op": (1, "I192 value (< 2^191) times 10^18 fits I256 (2^191 * 10^18 < 2^251)"), "Overflow(Sub)<u32>": (1, "constant 36 - 18")},
    r" as core::convert::TryFrom<&\[u8\]>>::try_from$": {"Result::unwrap": (1, "I192/I256::try_from(slice) after the slice length test"), "DivisionByZero": (1, "BITS / 8 (constant)")},
}


def run(ctx):
    F = ctx.F
    ctx.level = "other"
    ctx.explanation = ("Audited panic surface (T6) restricted to the operations the property names: the Checked{Add,Sub,Mul,Div,Neg} impls, checked_abs and "
                       "the conversions of Decimal / PreciseDecimal. Panic-capable constructs include MIR asserts, unwrap/expect/index calls and operator-"
                       "trait arithmetic on the repo's big-integer wrappers (which panics on overflow). The numerical clauses (exactness, truncation toward "
                       "zero, failure exactly when unrepresentable) are NOT decided.")
    ctx.rule("T6: the checked arithmetic impls of Decimal and PreciseDecimal contain no panic-capable construct at all (they are built from the "
             "big integers' own checked_* operations, `?` and try_from(..).ok())")
    ops = [n for n in F.fns if CHECKED.match(n)]
    ctx.floor("checked-op-impls", len(ops), 40, "Checked{Add,Sub,Mul,Div,Neg}/checked_abs impls (all operand types)")
    bodies = [ctx.body(n) for n in ops]
    def abs_behind_min_test(b, kind, bb, t):
        # `self.0.abs()` is safe when dominated by `*self != MIN` (the only value whose absolute value overflows)
        if kind != "bigint-op" or not t["f"].endswith("::abs"):
            return False
        e, bl = [], []
        for sb, tru, fal, si in b.bool_guards(lambda a: a.kind == "call" and re.search(r"PartialEq(<.*>)?(>)?::ne$", a.what + "|" + a.extra["fd"]) and
                                              any("::MIN" in str(x.what) for o in a.extra["args"][:2] for x in b.origins(o, deep=True) if x.kind == "const")):
            e.append((sb, tru)); bl.append(sb)
        return bool(bl) and b.unreachable_without([bb], e)[0]
    total, dis, listed = check_panic_surface(ctx, "checked-ops", bodies, {}, discharge=abs_behind_min_test, what="checked decimal arithmetic")
    ctx.ob("checked-ops|panic-free", total - dis == 0, f"{len(ops)} checked-operation bodies analysed, {total} panic-capable construct(s), {dis} discharged (abs() behind `!= MIN`)")
    uses_checked = sum(1 for n in ops if any(re.search(r"::checked_(add|sub|mul|div|neg|abs|round)$", c[0]) for c in F.fns[n].calls))
    ctx.note(f"{uses_checked}/{len(ops)} checked-operation bodies call a checked_* operation of the underlying integer or a sibling checked impl")
    ctx.sample({"checked_ops": len(ops), "examples": ops[:4]})
    ctx.rule("T6: conversions between the two types and from/to integers: every panic-capable construct is in the audited table")
    conv = [n for n in F.fns if CONV.match(n)]
    ctx.floor("conversion-impls", len(conv), 30)
    cb = [ctx.body(n) for n in conv]
    t2, d2, l2 = check_panic_surface(ctx, "conversions", cb, AUDITED, what="decimal conversions")
    ctx.ob("conversions|enumerated", True, f"{len(conv)} conversion bodies, {t2} panic-capable construct(s), {l2} within the audited table")
    ctx.rule("T4 rounding direction of the checked division: the CheckedDiv bodies of Decimal / PreciseDecimal divide with the truncating "
             "`checked_div` of the wide integer; euclidean / floor / ceiling division (`*_euclid`, `div_floor`, `div_ceil`) rounds negative "
             "quotients away from zero")
    bad_div, n_div = [], 0
    for name, f in sorted(F.fns.items()):
        if re.search(r"^<radix_common::math::(decimal::Decimal|precise_decimal::PreciseDecimal) as radix_common::math::traits::CheckedDiv", name) or \
                re.search(r"^<.* as radix_common::math::traits::CheckedDiv<radix_common::math::(decimal::Decimal|precise_decimal::PreciseDecimal)>>", name):
            for c in f.calls:
                if re.search(r"::checked_div$", c[0]):
                    n_div += 1
                if re.search(r"(div_euclid|rem_euclid|div_floor|div_ceil|checked_div_euclid|checked_rem_euclid)$", c[0]):
                    bad_div.append((name.rsplit("::", 2)[-2:], c[0].rsplit("::", 1)[-1], f.loc()))
    ctx.floor("checked-division|truncating-div-sites", n_div, 2)
    ctx.ob("checked-division|truncates-toward-zero", not bad_div, "checked division uses the truncating wide-integer checked_div only" if not bad_div else
           f"non-truncating division in a CheckedDiv body: {[(b_[0], b_[1]) for b_ in bad_div]}", bad_div[0][2] if bad_div else "")
    ctx.assume("exactness / truncation toward zero / 'fails exactly when unrepresentable' are numerical and not decided; the operator impls "
               "(Add/Sub/Mul/Div/Neg traits), which panic on overflow by design, are not among the operations the property names")
