"""C50 Objects are encapsulated by their blueprint — actor-identity guards, actor-state resolution, WASM surface."""
import re
from lib import *
from c51 import sysfn, SYS

ACTOR = r"radix_engine::system::actor::Actor::"


def run(ctx):
    F = ctx.F
    ctx.rule("T2: SystemService::drop_object reaches kernel_drop_node only when the actor's outer object equals the object's "
             "outer object, or the actor's blueprint equals the object's blueprint; the only exemption constants are the two proof blueprints")
    root = sysfn(F, "drop_object")
    if root and (b := the_body(ctx, root, r"kernel_drop_node$")):
        g = G_any([
            G_cmp(r"call:.*SystemService::get_object_info$", r"call:" + ACTOR + "instance_context$", "outer"),
            G_cmp(r"call:.*SystemService::get_object_info$", r"call:" + ACTOR + "blueprint_id$", "blueprint", callee=r"BlueprintId\b"),
        ], "actor outer-object == object's outer object OR actor blueprint == object's blueprint")
        check_guarded(ctx, "drop_object|actor-identity", b, call_blocks(b, r"kernel_drop_node$"), [g], "kernel_drop_node in drop_object")
        bp_consts = sorted(c for bb in ctx.bodies_of(root) for c in bb.fn.consts if c.endswith("_BLUEPRINT"))
        ctx.ob("drop_object|exemption-constants",
               {c.rsplit("::", 1)[-1] for c in bp_consts} == {"FUNGIBLE_PROOF_BLUEPRINT", "NON_FUNGIBLE_PROOF_BLUEPRINT"},
               f"blueprint-name constants mentioned in drop_object: {bp_consts}", b.loc())
        # both InvalidDropAccess rejections are live
        n = len(agg_blocks(b, r"errors::InvalidDropAccess$"))
        ctx.ob("drop_object|rejections-live", n >= 2, f"{n} InvalidDropAccess construction site(s)", b.loc())
    else:
        ctx.ob("anchor|drop_object", False, "SystemService::drop_object with a kernel_drop_node call not found")

    ctx.rule("T2: globalize_with_address_internal creates the global node only after (reservation is a GlobalAddressReservation) "
             "AND (reserved package == actor package) AND (object blueprint == reserved blueprint)")
    root = sysfn(F, "globalize_with_address_internal")
    if root and (b := the_body(ctx, root, r"kernel_create_node_from$")):
        targets = call_blocks(b, r"kernel_create_node_from$") + call_blocks(b, r"kernel_set_substate$")
        check_guarded(ctx, "globalize|access", b, targets, [
            G_cmp(r"call:.*IndexedScryptoValue::as_typed$", r"call:" + ACTOR + "package_address$", "reserved package == actor package"),
            G_cmp(r"call:.*SystemService::get_object_info$", r"call:.*IndexedScryptoValue::as_typed$", "object blueprint == reserved blueprint (full BlueprintId)",
                  callee=r"BlueprintId\b"),
            G_enum(r"::TypeInfoSubstate$", ["GlobalAddressReservation"], lambda a: a.kind == "call" and a.what.endswith("and_then")),
            G_bool_call(r"ObjectInfo::is_global$", False),
        ], "global node creation", min_targets=2)
    else:
        ctx.ob("anchor|globalize_with_address_internal", False, "globalize_with_address_internal with kernel_create_node_from not found")

    ctx.rule("argument origin: new_object derives the package of the created object from the current actor")
    root = sysfn(F, "new_object")
    if root and (b := the_body(ctx, root, r"new_object_internal$")):
        for bb, t in b.calls(r"new_object_internal$"):
            names = origin_names(b, t["args"][1], deep=False)
            # blueprint id = BlueprintId::new(&package_address <- actor.blueprint_id(), blueprint_ident param)
            ok = any(n == "call:radix_engine_interface::types::blueprint_id::BlueprintId::new" or n.endswith("BlueprintId::new") for n in names)
            newc = b.calls(r"BlueprintId::new$")
            pk_ok = False
            for nb, nt in newc:
                # package operand = actor.blueprint_id().map(|b| b.package_address).ok_or(..)?  (shallow chain, one closure hop)
                ats = b.origins(nt["args"][0])
                pn = {f"{a.kind}:{a.what}" for a in ats}
                hop = [a for a in ats if a.kind == "call" and mir.DERIVED_THROUGH.match(a.what)]
                srcs = set().union(*[origin_names(b, a.extra["args"][0]) for a in hop]) if hop else set()
                via_actor = any(re.search(ACTOR + "blueprint_id$", x) for x in srcs) and \
                    all(re.search(ACTOR + "blueprint_id$", x) or mir.DERIVED_THROUGH.match(x[5:]) for x in srcs)
                pk_ok = pk_ok or (via_actor and not any(x.startswith("param:") or x.startswith("const:") for x in pn))
            ctx.ob("new_object|package-from-actor", ok and pk_ok,
                   f"blueprint id passed to new_object_internal originates from {sorted(names)}; package operand from actor: {pk_ok}", b.loc(bb))
    else:
        ctx.ob("anchor|new_object", False, "SystemService::new_object not found")

    ctx.rule("argument origin: every actor_* state API addresses the node resolved by get_actor_*_info / get_actor_object_id "
             "(never a caller-supplied node id)")
    n_sites = 0
    prim = r"kernel_api::KernelSubstateApi(<[^>]*>)?(>)?::kernel_(open_substate(_with_default)?|set_substate|remove_substate|scan_keys|scan_sorted_substates|drain_substates|mark_substate_as_transient)$"
    for root in sorted(set(f.root for f in F.fns.values() if re.search(r"^<" + re.escape(SYS) + r" as .*>::actor_[a-z_]+$", f.root))):
        for b in ctx.bodies_of(root):
            if b.calls(prim):
                n_sites += len(b.calls(prim))
                check_arg_origin(ctx, f"actor-state-node|{root.split('>::')[-1]}", b, prim, 1,
                                 r"^call:.*SystemService::get_actor_(field_info|collection_partition_info|object_id|info)$",
                                 "node id of actor-state access")
    ctx.floor("actor-state-node", n_sites, 11)

    b = the_body(ctx, SYS + "::get_actor_object_id", ACTOR + "get_object_id$")
    if b is None:
        ctx.ob("anchor|get_actor_object_id", False, "SystemService::get_actor_object_id (calling Actor::get_object_id) not found")
    else:
        oks = [s for bb, kind, s in b.defs(0) if kind == "=" and s["rv"]["k"] == "agg" and s["rv"].get("var") == "Ok"]
        for s in oks:
            names = origin_names(b, s["rv"]["ops"][0])
            ok = bool(names) and all(re.search(r"^call:(" + ACTOR + r"get_object_id|.*SystemService::get_outer_object)$|^agg:|^const:", n) for n in names) \
                and any(n.startswith("call:") for n in names)
            ctx.ob("get_actor_object_id|result-from-actor", ok, f"Ok value originates from {sorted(names)}", b.loc())
        check_no_live_otherwise(ctx, "get_actor_object_id|ActorStateRef-exhaustive", b, r"system::system::ActorStateRef$", "match on ActorStateRef")

    ctx.rule("T4: the WASM host surface (vm::wasm_runtime::scrypto_runtime) never calls a Kernel*Api primitive directly")
    bad = {}
    n_rt = 0
    for f in F.fns.values():
        if f.mod.startswith("radix_engine::vm::wasm_runtime"):
            n_rt += 1
            for c in f.calls:
                if re.search(r"kernel::kernel_api::Kernel[A-Za-z]*Api(<[^>]*>)?(>)?::kernel_", c[0] + "|" + c[1]):
                    bad.setdefault(f.root, []).append(c)
    ctx.floor("wasm-runtime-fns", n_rt, 60)
    ctx.ob("wasm-surface|no-kernel-primitives", not bad,
           "functions of vm::wasm_runtime calling kernel primitives directly: " + (", ".join(f"{k} -> {v[0][0]}" for k, v in bad.items()) or "none"))
    ctx.assume("kernel visibility rules for arbitrary reference flows are not decided")
