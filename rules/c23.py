"""C23 Schema compatibility checks are sound — the clause visible in the code's shape: every base type kind has a mismatch rejection,
and the validation-change verdict table never accepts a strengthened or incomparable validation."""
import re
from lib import *
from c15 import arm_regions

K = "sbor::schema::schema_comparison::schema_comparison_kernel::SchemaComparisonKernel"
TK = r"sbor::schema::type_data::type_kind::TypeKind$"


def run(ctx):
    F = ctx.F
    ctx.rule("T5: compare_type_kind_internal matches the base TypeKind with no catch-all and the arm of every kind can reach a "
             "with_mismatch_error rejection (a kind without one would be 'compatible' with anything)")
    n = K + "::compare_type_kind_internal"
    if ctx.anchor(n):
        b = ctx.body(n)
        gs = [g for g in b.enum_guards(TK) if len(g[1]) >= 8]
        ctx.ob("kind|match", len(gs) >= 1, f"{len(gs)} large match(es) over TypeKind", b.loc())
        mm = set(call_blocks(b, r"TypeKindComparisonResult(<.*>)?::with_mismatch_error$|::with_mismatch_error$"))
        ctx.floor("kind|mismatch-sites", len(mm), 5)
        for bb, ed, ow, si in gs[:1]:
            full = set(F.enums.get(si["enum"], {}).values())
            ctx.ob("kind|no-catch-all", ow is None and set(ed) == full, f"arms {len(ed)} of {len(full)} kinds; otherwise={ow}", b.loc(bb))
            for v, s in sorted(ed.items()):
                region = b.reach((s,), blocked_blocks=[bb])
                ctx.ob(f"kind|{v}-can-mismatch", bool(region & mm), f"{v} arm " + ("reaches" if region & mm else "NEVER reaches") + " a mismatch rejection", b.loc(bb))
            # the accepting exit (`_0 = result` without a mismatch) is reachable only through a same-kind test of the compared kind:
            # `compared != base` being false, or a `let TypeKind::X = compared else { mismatch }` taking the X edge
            accept = [blk for blk, kind, st in b.defs(0) if kind == "=" and st["rv"]["k"] == "use" and blk not in mm]
            accept = [blk for blk in accept if bb in b.reach((0,)) and blk in b.reach((bb,))]
            ctx.ob("kind|accepting-exit", len(accept) >= 1, f"{len(accept)} accepting exit(s) after the kind match", b.loc())
            base_bb = bb
            arm_region = {v: b.reach((s_,), blocked_blocks=[bb]) for v, s_ in ed.items()}

            def same_kind(body):
                edges, blocks = [], []
                for gb, ged, gow, gsi in body.enum_guards(TK):
                    if gb == base_bb or gsi.get("via_matches") == base_bb:
                        continue
                    # a destructuring test counts only as `same kind`: the tested variant must be the base variant of the (single) arm it sits in
                    owners = {v for v, reg in arm_region.items() if gb in reg}
                    if len(owners) != 1:
                        continue
                    v0 = next(iter(owners))
                    if v0 in ged:
                        edges.append((gb, ged[v0]))
                        blocks.append(gb)
                for gb, tru, fal, gsi in body.call_bool_guards(r"core::cmp::PartialEq(<[^>]*>)?>::ne$|::ne$"):
                    edges.append((gb, fal)); blocks.append(gb)
                for gb, tru, fal, gsi in body.call_bool_guards(r"core::cmp::PartialEq(<[^>]*>)?>::eq$|::eq$"):
                    edges.append((gb, tru)); blocks.append(gb)
                return edges, blocks
            check_guarded(ctx, "kind|accept-only-after-same-kind-test", b, accept, [G_custom(same_kind, "compared kind tested equal to / destructured as the base kind")],
                          "accepting exit of compare_type_kind_internal")
    ctx.rule("T8: the validation-change verdict table: Unchanged -> valid, Strengthened -> invalid, Incomparable -> invalid, Weakened -> the "
             "allow_validation_weakening setting; incomparable validation kinds fall into Incomparable")
    n = K + "::compare_type_validation_internal"
    if ctx.anchor(n):
        b = ctx.body(n)
        gs = b.enum_guards(r"::ValidationChange$")
        ctx.ob("validation|verdict-match", len(gs) >= 1 and all(g[2] is None for g in gs), f"{len(gs)} exhaustive match(es) on ValidationChange", b.loc())
        for bb, ed, ow, si in gs[:1]:
            tbl = {}
            for v, s in ed.items():
                vals = set()
                blk = s
                for _ in range(3):
                    for st in b.stmts(blk):
                        if st["k"] == "=" and st["rv"]["k"] == "use":
                            o = st["rv"]["o"]
                            if o[0] == "k" and o[1].get("ty") == "bool":
                                vals.add(o[1].get("v"))
                            elif o[0] != "k":
                                vals |= {"field:" + "".join(a.proj) for a in b.origins(o) if a.proj}
                    nx = b.succs(blk)
                    if vals or len(nx) != 1:
                        break
                    blk = nx[0]
                tbl[v] = vals
            ok = tbl.get("Unchanged") == {"1"} and tbl.get("Strengthened") == {"0"} and tbl.get("Incomparable") == {"0"} and \
                any("allow_validation_weakening" in x for x in tbl.get("Weakened", set()))
            ctx.ob("validation|verdict-table", ok, f"verdict table: {dict((k, sorted(v)) for k, v in tbl.items())}", b.loc(bb))
        inc = agg_blocks(b, r"::ValidationChange$", "Incomparable")
        ctx.ob("validation|mismatched-kinds-incomparable", len(inc) >= 1, f"{len(inc)} site(s) producing ValidationChange::Incomparable for differing validation kinds", b.loc())
        errs = b.calls(r"::add_error$|::with_error$|::record_error")
        ctx.ob("validation|invalid-records-error", len(errs) >= 1, "an invalid validation change records a comparison error", b.loc())
    ctx.rule("T7: every SchemaComparisonErrorDetail variant is produced by the kernel")
    cand = [e for e in F.enums if e.endswith("::SchemaComparisonErrorDetail")]
    for e in cand[:1]:
        check_variants_live(ctx, "SchemaComparisonErrorDetail", e, r"sbor::schema::schema_comparison", conditional=False)
    if not cand:
        ctx.ob("anchor|SchemaComparisonErrorDetail", False, "enum not found")
    ctx.rule("argument origin in NumericValidation::compare (length validations delegate to it): the two orderings it computes compare "
             "effective_min() with effective_min() and effective_max() with effective_max() — never the raw Option bounds, for which `None` "
             "(unbounded) sorts below every Some and turns an added upper bound into a `Weakened` validation")
    nc = [x for x in F.fns if re.search(r"type_validation::NumericValidation(<[^>]*>)?::compare$", x)]
    ctx.ob("numeric-compare|anchor", len(nc) == 1, f"NumericValidation::compare: {len(nc)}")
    for x in nc[:1]:
        b = ctx.body(x)
        cmps = b.calls(r"core::cmp::(Ord|PartialOrd)(<[^>]*>)?(>)?::(cmp|partial_cmp|lt|le|gt|ge)$")
        pairs = []
        for bb, t in cmps:
            o0 = {y.rsplit("::", 1)[-1] for y in origin_names(b, t["args"][0])}
            o1 = {y.rsplit("::", 1)[-1] for y in origin_names(b, t["args"][1])}
            pairs.append((sorted(o0), sorted(o1)))
        ok = len(pairs) >= 2 and all(p_[0] == p_[1] and p_[0] in (["effective_min"], ["effective_max"]) for p_ in pairs) and \
            {tuple(p_[0]) for p_ in pairs} == {("effective_min",), ("effective_max",)}
        ctx.ob("numeric-compare|compares-effective-bounds", ok, f"orderings computed over {pairs}", b.loc())
    lc = [x for x in F.fns if re.search(r"type_validation::LengthValidation::compare$", x)]
    for x in lc[:1]:
        b = ctx.body(x)
        ctx.ob("length-compare|delegates-to-numeric-compare", bool(b.calls(r"NumericValidation(<[^>]*>)?::compare$")), "LengthValidation::compare delegates to NumericValidation::compare", b.loc())
    ctx.assume("soundness proper (a reported extension / equality implies the payload-set relation) is semantic and NOT decided; only that every kind "
               "and every validation change has a rejecting path and that the verdict table is the declared one")
