"""C36 Static manifest validation matches the bucket/proof lifecycle — exhaustiveness over instruction effects, consume transitions,
rejection liveness, end-of-manifest checks."""
import re
from lib import *
from c15 import arm_regions

M = "radix_transactions::manifest::static_manifest_interpreter::"
SI = M + "StaticManifestInterpreter"
ARMS = {  # effect variant -> handler that must be reached in its arm
    "CreateBucket": r"::handle_new_bucket$", "CreateProof": r"::handle_new_proof$", "ConsumeBucket": r"::consume_bucket$",
    "ConsumeProof": r"::consume_proof$", "CloneProof": r"::handle_cloned_proof$", "DropManyProofs": r"::consume_proof$",
    "Invocation": r"::handle_invocation$", "CreateAddressAndReservation": r"::handle_new_address_reservation$",
    "ResourceAssertion": r"::handle_resource_assertion$", "Verification": r"::handle_verification$",
}


def run(ctx):
    F = ctx.F
    ctx.rule("T5: handle_instruction matches ManifestInstructionEffect with no catch-all and each effect's arm reaches its lifecycle handler "
             "(create/consume/clone/drop of buckets, proofs, reservations)")
    n = SI + "::handle_instruction"
    if ctx.anchor(n):
        b = ctx.body(n)
        gs = [g for g in b.enum_guards(r"::ManifestInstructionEffect$") if len(g[1]) >= 5]
        ctx.ob("handle_instruction|match", len(gs) == 1, f"{len(gs)} match(es) on ManifestInstructionEffect", b.loc())
        for bb, ed, ow, si in gs[:1]:
            full = set(F.enums.get(si["enum"], {}).values())
            ctx.ob("handle_instruction|no-catch-all", ow is None and set(ed) == full, f"arms {sorted(ed)}; enum variants {sorted(full)}", b.loc(bb))
            ctx.ob("handle_instruction|effects-classified", full == set(ARMS), f"effect variants without a lifecycle rule: {sorted(full - set(ARMS))}", b.loc(bb))
            ex = arm_regions(b, bb, ed)
            for v, pat in ARMS.items():
                if v not in ed:
                    continue
                region = b.reach((ed[v],), blocked_blocks=[bb])
                hit = [x for x, _ in b.calls(pat) if x in region and x in ex.get(v, region)] or [x for x, _ in b.calls(pat) if x in region]
                ctx.ob(f"handle_instruction|{v}", bool(hit), f"{v} arm reaches {pat.strip(':$')}", b.loc(bb))
        check_guarded(ctx, "handle_instruction|next-instruction-requirement-first", b, call_blocks(b, r"::on_start_instruction$"),
                      [G_try(r"::handle_next_instruction$")], "visitor.on_start_instruction")

    ctx.rule("T2: consume_bucket / consume_proof / consume_address_reservation mark the item consumed only after the `already used` and "
             "`locked by proof` tests; every argument of an invocation is visited so passed buckets/proofs are consumed")
    for fn, errs in (("consume_bucket", ["BucketNotYetCreated", "BucketAlreadyUsed", "BucketConsumedWhilstLockedByProof"]),
                     ("consume_proof", ["ProofNotYetCreated", "ProofAlreadyUsed"]),
                     ("consume_address_reservation", ["AddressReservationNotYetCreated", "AddressReservationAlreadyUsed"])):
        n = SI + "::" + fn
        if ctx.anchor(n):
            bs = ctx.bodies_of(n)
            b = ctx.body(n)
            got = {v.rsplit("::", 1)[-1] for x in bs for v in x.fn.vars if "ManifestValidationError::" in v}
            # errors may be raised by the get_existing_* helper it calls
            helper = [c[0] for x in bs for c in x.fn.calls if re.search(r"::get_existing_\w+$", c[0])]
            for h in helper:
                for hb in ctx.bodies_of(h):
                    got |= {v.rsplit("::", 1)[-1] for v in hb.fn.vars if "ManifestValidationError::" in v}
            ctx.ob(f"{fn}|rejections", set(errs) <= got, f"{fn} (+{[h.split('::')[-1] for h in helper]}) can raise {sorted(got)}; required {errs}", b.loc())
            wr = [x for x in bs if any(y.endswith(".consumed_at") for y in x.fn.fw)]
            ctx.ob(f"{fn}|marks-consumed", bool(wr), "writes consumed_at", b.loc())
    n = SI + "::handle_invocation"
    if ctx.anchor(n):
        bs = ctx.bodies_of(n)
        calls = {c[0].split("::")[-1] for x in bs for c in x.fn.calls}
        ctx.ob("handle_invocation|consumes-passed-items", {"consume_bucket", "consume_proof", "consume_address_reservation"} <= calls,
               f"handle_invocation reaches {sorted(calls & {'consume_bucket','consume_proof','consume_address_reservation','get_existing_named_address','handle_new_intent'})}", F.fns[n].loc())

    ctx.rule("argument origin (per occurrence): in handle_invocation the item handed to consume_bucket / consume_proof / consume_address_reservation "
             "is the payload of the traversal event itself (`@Bucket` / `@Proof` / `@AddressReservation` of next_event()), so *every occurrence* in the "
             "argument payload is consumed — an intermediate set would collapse a bucket passed twice, which the run-time processor takes twice")
    if ctx.anchor(n):
        b = ctx.body(n)
        for fn, tag in (("consume_bucket", "@Bucket"), ("consume_proof", "@Proof"), ("consume_address_reservation", "@AddressReservation")):
            cs = b.calls(re.escape(SI) + "::" + fn + "$")
            ok = bool(cs)
            det = []
            for bb, t in cs:
                ats = b.origins(t["args"][2])
                good = bool(ats) and all(a.kind == "call" and a.what.endswith("::next_event") and tag in a.proj for a in ats)
                ok = ok and good
                det.append(sorted({(a.what.rsplit("::", 1)[-1] if a.kind == "call" else a.kind) for a in ats}))
            if not ok and cs:
                # an intermediate *sequence* keeps every occurrence; only a set/map collapses repeats
                setops = b.calls(r"(IndexSet|BTreeSet|HashSet|IndexMap|BTreeMap|HashMap)(<[^>]*>)?::(insert|extend|from_iter)$")
                for bb, t in b.calls(r"::collect$|::from_iter$"):
                    d = t.get("d")
                    ty = b.locals[d[0]][0] if d and isinstance(d[0], int) else ""
                    if re.search(r"IndexSet|BTreeSet|HashSet|IndexMap|BTreeMap|HashMap", str(ty)):
                        setops.append((bb, t))
                ok = not setops
                det.append("intermediate collection: " + ("set/map (collapses repeats)" if setops else "sequence"))
            ctx.ob(f"handle_invocation|{fn}-per-occurrence", ok, f"{len(cs)} {fn} site(s); item originates from {det}", b.loc(cs[0][0]) if cs else b.loc())

    ctx.rule("T7: every ManifestValidationError variant is produced; T2: the end-of-manifest checks (dangling bucket / reservation, pending "
             "next-call assertion, subintent must end with yield) lie on every path to the interpreter's success")
    check_variants_live(ctx, "ManifestValidationError", M + "ManifestValidationError", r"radix_transactions::", conditional=False)
    n = SI + "::interpret_internal"
    if ctx.anchor(n):
        b = ctx.body(n)
        wrap = call_blocks(b, r"::handle_wrap_up$|::validate_at_end$|::verify_final_instruction$")
        rets = b.returns()
        conts = [bb for bb, kind, s in b.defs(0) if kind == "=" and s["rv"]["k"] == "agg" and s["rv"].get("var") == "Continue"] + \
                [bb for bb, kind, s in b.defs(0) if kind == "call" and "on_finish" in s["f"]]
        ok = bool(wrap) and bool(conts) and not (b.reach((0,), blocked_blocks=wrap) & set(conts))
        ctx.ob("interpret_internal|wrap-up-before-success", ok, f"end-of-manifest handling at bb{wrap} precedes every successful completion", b.loc())
    n = SI + "::handle_wrap_up"
    if ctx.anchor(n):
        bs = ctx.bodies_of(n)
        got = {v.rsplit("::", 1)[-1] for x in bs for v in x.fn.vars if "ManifestValidationError::" in v}
        sub = [c[0] for x in bs for c in x.fn.calls if re.search(r"::(validate_at_end|verify_final_instruction)$", c[0])]
        for h in sub:
            for hb in ctx.bodies_of(h):
                got |= {v.rsplit("::", 1)[-1] for v in hb.fn.vars if "ManifestValidationError::" in v}
        need = {"DanglingBucket", "DanglingAddressReservation"}
        ctx.ob("wrap-up|dangling-checks", need <= got, f"wrap-up can raise {sorted(got)}", F.fns[n].loc())
    ctx.assume("agreement with run-time behaviour for every instruction sequence is not decided")
