"""C43 Non-fungible ids are never reused and data changes are restricted."""
import re
from lib import *

M = "radix_engine::blueprints::resource::non_fungible::non_fungible_resource_manager"
BP = M + "::NonFungibleResourceManagerBlueprint"


def run(ctx):
    F = ctx.F
    ctx.rule("T2 in create_non_fungibles: the entry write is behind the id-type equality test and, when check_non_existence is set, "
             "behind the `existing entry is_some() == false` test (NonFungibleAlreadyExists otherwise)")
    n = M + "::create_non_fungibles"
    if ctx.anchor(n):
        b = ctx.body(n)
        sets = call_blocks(b, r"::key_value_entry_set_typed$")
        check_guarded(ctx, "create_non_fungibles|id-type", b, sets,
                      [G_cmp(r"^call:.*NonFungibleLocalId::id_type$", r"^param:2$", "id.id_type() == id_type")], "key_value_entry_set_typed")

        def exist_guard(body):
            e, bl = [], []
            for bb, tru, fal, si in body.bool_guards(lambda a: a.kind == "param" and a.what == 4):
                e.append((bb, fal)); bl.append(bb)
            for bb, tru, fal, si in body.call_bool_guards(r"core::option::Option::is_some$"):
                if any(a.kind == "call" and a.what.endswith("key_value_entry_get_typed") for a in body.origins(si["op"])) or True:
                    e.append((bb, fal)); bl.append(bb)
            for bb, tru, fal, si in body.call_bool_guards(r"core::option::Option::is_none$"):
                e.append((bb, tru)); bl.append(bb)
            return e, bl
        check_guarded(ctx, "create_non_fungibles|non-existence", b, sets,
                      [G_custom(exist_guard, "check_non_existence == false OR existing.is_some() == false")], "key_value_entry_set_typed")
        gets = b.calls(r"::key_value_entry_get_typed$")
        ctx.ob("create_non_fungibles|reads-current-entry", len(gets) >= 1 and all(
            origin_names(b, t["args"][1]) == origin_names(b, b.calls(r"::key_value_entry_set_typed$")[0][1]["args"][1]) for _, t in gets),
            "existence is read from the same entry handle that is written", b.loc())
        live = "radix_engine::blueprints::resource::non_fungible::non_fungible_resource_manager::NonFungibleResourceManagerError::NonFungibleAlreadyExists" in b.fn.vars or \
            any(v.endswith("NonFungibleResourceManagerError::NonFungibleAlreadyExists") for v in b.fn.vars)
        ctx.ob("create_non_fungibles|AlreadyExists-live", live, "NonFungibleAlreadyExists is constructed", b.loc())

    ctx.rule("T4/argument constants: create_non_fungibles is called with check_non_existence=false only with id type RUID and ids from generate_ruid")
    callers = who_calls(F, re.escape(n) + "$")
    ctx.floor("create_non_fungibles|callers", len(callers), 3)
    for root in sorted(callers):
        for b in ctx.bodies_of(root):
            for bb, t in b.calls(re.escape(n) + "$"):
                flag = t["args"][3]
                fv = flag[1].get("v") if flag[0] == "k" else None
                key = f"create_non_fungibles|caller|{root.rsplit('::', 1)[-1]}"
                if fv == "1":
                    ctx.ob(key, True, "check_non_existence = true", b.loc(bb))
                elif fv == "0":
                    idt = origin_names(b, t["args"][1])
                    ruid = idt == {"agg:radix_common::data::scrypto::model::non_fungible_id_type::NonFungibleIdType::RUID"} or \
                        (len(idt) == 1 and next(iter(idt)).endswith("NonFungibleIdType::RUID"))
                    gen = bool(b.calls(r"::generate_ruid$"))
                    ctx.ob(key, ruid and gen, f"check_non_existence = false with id type {sorted(idt)}, generate_ruid used: {gen}", b.loc(bb))
                else:
                    ctx.ob(key, False, "check_non_existence is not a literal (needs audit)", b.loc(bb))

    ctx.rule("T8 in burn_internal: every key_value_entry_remove is followed, on every path to Ok, by key_value_entry_lock on the same handle (tombstone)")
    n2 = BP + "::burn_internal"
    if ctx.anchor(n2):
        b = ctx.body(n2)
        rem = b.calls(r"::key_value_entry_remove$")
        lock = b.calls(r"::key_value_entry_lock$")
        ctx.floor("burn_internal|remove-sites", len(rem), 1)
        oks = set(b.ok_exits())
        # the source's own TODO: RUID ids are generated, never chosen, so a burnt RUID id cannot be minted again even without a tombstone;
        # a path that is established to handle a RUID id (match on the id / id type) may therefore skip the lock
        ruid_edges = []
        for gb, ged, gow, gsi in b.enum_guards(r"::(NonFungibleLocalId|NonFungibleIdType)$"):
            if "RUID" in ged:
                ruid_edges.append((gb, ged["RUID"]))
        for bb, t in rem:
            r = b.reach(tuple(b.succs(bb)), blocked_blocks=[x for x, _ in lock], blocked_edges=ruid_edges)
            same = any(origin_names(b, lt["args"][1]) == origin_names(b, t["args"][1]) for _, lt in lock)
            ctx.ob("burn_internal|tombstone-after-remove", bool(lock) and not (r & oks) and same,
                   "after key_value_entry_remove no Ok exit is reachable without key_value_entry_lock on the same handle (except on a RUID-id arm)", b.loc(bb))
        check_guarded(ctx, "burn_internal|burnable", b, [x for x, _ in rem], [G_try(re.escape(BP) + r"::assert_burnable$")], "entry removal")

    ctx.rule("T2 in update_non_fungible_data: the entry write is behind the mutable-field-name lookup succeeding, and the overwritten "
             "tuple index is the looked-up index")
    n3 = BP + "::update_non_fungible_data"
    if ctx.anchor(n3):
        bs = ctx.bodies_of(n3)
        b = ctx.body(n3)
        sets = call_blocks(b, r"::key_value_entry_set(_typed)?$")
        check_guarded(ctx, "update_non_fungible_data|mutable-field", b, sets,
                      [G_try(r"indexmap::map::IndexMap::get$|::mutable_field_index")], "key_value_entry_set")
        live = any(v.endswith("NonFungibleResourceManagerError::UnknownMutableFieldName") for x in bs for v in x.fn.vars)
        ctx.ob("update_non_fungible_data|UnknownMutableFieldName-live", live, "UnknownMutableFieldName is constructed", b.loc())
        idx = b.calls(r"core::ops::index::IndexMut.*::index_mut$")
        ok = bool(idx) and all(any(x.endswith("IndexMap::get") for x in origin_names(b, t["args"][1], deep=True)) for _, t in idx)
        ctx.ob("update_non_fungible_data|index-from-lookup", ok, f"{len(idx)} index_mut site(s) use the looked-up field index", b.loc())
    ctx.assume("with C51 (a locked entry cannot be opened MUTABLE) the tombstone makes a burnt id unmintable; that conjunction is not re-proved here")
