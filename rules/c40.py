"""C40 Access controller changes need two roles or an elapsed timer — transition-gating clause."""
import re
from lib import *

AC = "radix_engine::blueprints::access_controller::"


def run(ctx):
    F = ctx.F
    ctx.rule("T4+T2: update_role_assignment (rule replacement) is called only from the five confirm handlers of each version, each behind "
             "transition_mut(..)? whose Ok payload is the rule set applied (or the constant locked rule set for badge withdrawal)")
    for ver, bp in (("v1", "AccessControllerV1Blueprint"), ("v2", "AccessControllerV2Blueprint")):
        mod = f"{AC}{ver}::blueprint::"
        callers = who_calls(F, re.escape(mod) + r"update_role_assignment$")
        check_who_may(ctx, f"{ver}|who-updates-roles", callers, {
            re.escape(mod + bp) + r"::(quick_confirm_primary_role_recovery_proposal|quick_confirm_recovery_role_recovery_proposal|"
            r"quick_confirm_primary_role_badge_withdraw_attempt|quick_confirm_recovery_role_badge_withdraw_attempt|timed_confirm_recovery)$": "confirm handler",
        }, "caller of update_role_assignment")
        ctx.floor(f"{ver}|who-updates-roles", len(callers), 5)
        for root in sorted(callers):
            b = ctx.body(root)
            fn = root.rsplit("::", 1)[-1]
            ups = b.calls(re.escape(mod) + r"update_role_assignment$")
            check_guarded(ctx, f"{ver}|{fn}|after-transition", b, [x for x, _ in ups], [G_try(re.escape(mod) + r"transition_mut$")], "update_role_assignment")
            for bb, t in ups:
                names = origin_names(b, t["args"][2], deep=True)
                if "badge_withdraw" in fn:
                    ok = any(x.endswith("locked_role_assignment") for x in names)
                    ctx.ob(f"{ver}|{fn}|applies-locked-rules", ok, f"rule set applied originates from {[x for x in sorted(names) if 'call:' in x][:3]}", b.loc(bb))
                else:
                    ok = any(x.endswith("blueprint::transition_mut") for x in names)
                    ctx.ob(f"{ver}|{fn}|applies-transition-output", ok, "the rule set applied is the transition's Ok payload (the stored proposal), not the caller's input", b.loc(bb))
            # withdrawn bucket comes from the transition
            if "badge_withdraw" in fn:
                oks = [s for bb, kind, s in b.defs(0) if kind == "=" and s["rv"]["k"] == "agg" and s["rv"].get("var") == "Ok"]
                ok = bool(oks) and all(any(x.endswith("blueprint::transition_mut") for x in origin_names(b, s["rv"]["ops"][0], deep=True)) for s in oks)
                ctx.ob(f"{ver}|{fn}|bucket-from-transition", ok, "the returned badge bucket is the transition's Ok payload", b.loc())

    ctx.rule("T2: the TimedConfirmRecovery transition returns Ok only when compare_against_current_time(allowed_after, Gte) is true "
             "(TimedRecoveryDelayHasNotElapsed otherwise) and the passed proposal validates; quick-confirm transitions validate the proposal")
    for ver in ("v1", "v2"):
        sm = f"{AC}{ver}::state_machine::"
        tm = [n for n in F.fns if re.search(r"TransitionMut<" + re.escape(sm) + r"AccessControllerTimedConfirmRecoveryStateMachineInput>>::transition_mut$", n)]
        if len(tm) != 1:
            ctx.ob(f"{ver}|anchor|timed-confirm-transition", False, f"candidates: {tm}")
            continue
        b = ctx.body(tm[0])
        check_guarded(ctx, f"{ver}|timed-confirm|timer-elapsed", b, b.ok_exits(), [
            G_bool_call(r"Runtime::compare_against_current_time$", True), G_try(r"Runtime::compare_against_current_time$"),
            G_try(re.escape(sm) + r"validate_recovery_proposal$")], "Ok(proposal)")
        for bb, t in b.calls(r"Runtime::compare_against_current_time$"):
            a0 = b.origins(t["args"][0], deep=True)
            ok0 = any("timed_recovery_allowed_after" in "".join(a.proj) for a in a0)
            op = origin_names(b, t["args"][2])
            ctx.ob(f"{ver}|timed-confirm|compares-stored-deadline", ok0, "the compared instant is the stored timed_recovery_allowed_after", b.loc(bb))
            ctx.ob(f"{ver}|timed-confirm|operator-Gte", any(x.endswith("TimeComparisonOperator::Gte") for x in op), f"comparison operator: {sorted(op)}", b.loc(bb))
        live = any("TimedRecoveryDelayHasNotElapsed" in v for x in ctx.bodies_of(tm[0]) for v in x.fn.vars)
        ctx.ob(f"{ver}|timed-confirm|rejection-live", live, "TimedRecoveryDelayHasNotElapsed is constructed", b.loc())
        qc = [n for n in F.fns if re.search(r"TransitionMut<" + re.escape(sm) + r"AccessControllerQuickConfirm\w+RecoveryProposalStateMachineInput>>::transition_mut$", n)]
        ctx.floor(f"{ver}|quick-confirm-transitions", len(qc), 2)
        for q in qc:
            bq = ctx.body(q)
            check_guarded(ctx, f"{ver}|{q.split('AccessController')[-1].split('StateMachineInput')[0]}|validates-proposal", bq, bq.ok_exits(),
                          [G_try(re.escape(sm) + r"validate_recovery_proposal$")], "Ok(proposal)")
        cp = [n for n in F.fns if re.search(r"Transition<" + re.escape(sm) + r"AccessControllerCreateProofStateMachineInput>>::transition$", n)]
        for c in cp[:1]:
            bc = ctx.body(c)
            live = any("OperationRequiresUnlockedPrimaryRole" in v for f_ in F.fns.values() if f_.mod == F.fns[c].mod for v in f_.vars)
            ctx.ob(f"{ver}|create-proof|locked-primary-rejected", live and bool(bc.ok_exits()), "create_proof transition can reject with OperationRequiresUnlockedPrimaryRole", bc.loc())
            # every proof of the controlled asset is created behind the `primary role is Unlocked` arm of the state match
            proofs = call_blocks(bc, r"::create_proof_of_(amount|non_fungibles|all)$|::create_proof\w*$")
            check_guarded(ctx, f"{ver}|create-proof|only-while-primary-unlocked", bc, proofs,
                          [G_enum(r"::PrimaryRoleLockingState$", ["Unlocked"])], "creation of a proof of the controlled asset", min_targets=1)
    ctx.assume("the state machine over arbitrary interleavings, and that proposing roles cannot also confirm (role table), are not decided here")
