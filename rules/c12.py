"""C12 The transaction state cache reads back its own writes — precedence clause: tracked state shadows the database; the database is
read only by audited functions and never written by the Track."""
import re
from lib import *

T = "radix_engine::track::track::MappedTrack"
TI = "<" + T + " as radix_engine::track::interface::CommitableSubstateStore>::"
SU = "radix_engine::track::state_updates::"


def run(ctx):
    F = ctx.F
    ctx.rule("T2: in get_tracked_substate the database is consulted (get_substate_from_db) only on the Entry::Vacant arm, i.e. an entry "
             "the transaction has already read / written / removed always shadows the database, and never for a transient substate")
    n = T + "::get_tracked_substate"
    if ctx.anchor(n):
        b = ctx.body(n)
        db = call_blocks(b, re.escape(T) + r"::get_substate_from_db$")
        check_guarded(ctx, "get_tracked_substate|db-only-when-untracked", b, db, [
            G_enum(r"btree::map::entry::Entry$|::Entry$", ["Vacant"]),
            G_bool_call(r"TransientSubstates::is_transient$", False)], "database read")
        for bb, ed, ow, si in b.enum_guards(r"::Entry$"):
            occ = ed.get("Occupied", ow)
            ctx.ob("get_tracked_substate|occupied-arm-reads-no-db", occ is not None and not (b.reach((occ,), blocked_blocks=[bb]) & set(db)),
                   "the Occupied arm never reaches the database read", b.loc(bb))
        # whatever was read from the DB is inserted into the tracked map (so later reads hit the tracked entry)
        ins = b.calls(r"VacantEntry(<.*>)?::insert$")
        ctx.ob("get_tracked_substate|db-read-is-cached", len(ins) >= 2, f"{len(ins)} VacantEntry::insert site(s): the fetched/non-existent result is recorded", b.loc())

    ctx.rule("T4: the underlying database handle is read only by the audited Track functions; the Track has no call that mutates the database")
    readers = {f.root: f for f in F.fns.values() if T + ".substate_db" in f.fr}
    check_who_may(ctx, "who-reads-substate_db", readers, {
        re.escape(T) + r"::get_tracked_substate$": "point read fallback (guarded above)",
        re.escape(TI) + r"(scan_keys|drain_substates|scan_sorted_substates)$": "iteration overlaying tracked entries on the database listing",
        re.escape(TI) + r"get_commit_info$|" + re.escape(T) + r"::finalize$": "end-of-transaction summary / hand-back of the db reference",
        re.escape(T) + r"::new$": "constructor",
    }, "reader of MappedTrack.substate_db")
    ctx.floor("who-reads-substate_db", len(readers), 5)
    mut = who_calls(F, r"CommittableSubstateDatabase(>)?::commit$", scope=lambda f: f.mod.startswith("radix_engine::track"))
    ctx.ob("track|never-commits-to-db", not mut, f"track functions calling CommittableSubstateDatabase::commit: {sorted(mut) or 'none'}")

    ctx.rule("T2: scans and drains skip the database entirely for nodes created in this transaction (is_new) and skip database entries "
             "shadowed by a tracked entry")
    for fn in ("scan_keys", "drain_substates", "scan_sorted_substates"):
        n = TI + fn
        if not ctx.anchor(n):
            continue
        bodies = ctx.bodies_of(n)
        b = ctx.body(n)
        db = call_blocks(b, re.escape(T) + r"::list_entries_from_db$")
        reads_new = any(any(x.endswith("TrackedNode.is_new") for x in y.fn.fr) for y in bodies)
        ctx.ob(f"{fn}|consults-is_new", reads_new and bool(db), f"{fn} reads TrackedNode.is_new and lists the database at {len(db)} site(s)", b.loc())
        if fn != "scan_sorted_substates":
            shadow = any(re.search(r"BTreeMap(<.*>)?::contains_key$|::contains_key$", c[0]) for y in bodies for c in y.fn.calls)
            ctx.ob(f"{fn}|skips-shadowed-db-entries", shadow, "database entries whose key is tracked are skipped (contains_key test)", b.loc())
        else:
            ov = any(re.search(r"OverlayingResultIterator|OverlayingIterator", c[0]) for y in bodies for c in y.fn.calls)
            ctx.ob(f"{fn}|overlays-tracked-on-db", ov, "sorted scan merges tracked entries over the database listing (OverlayingResultIterator)", b.loc())

    ctx.rule("T5: TrackedSubstateValue::get / set / take have no catch-all arm over the tracked-value variants (a new variant cannot be silently "
             "treated as absent); set_substate / remove_substate only touch tracked state")
    for m in ("get", "get_runtime_substate_mut", "set", "take"):
        n = SU + "TrackedSubstateValue::" + m
        if n in F.fns:
            b = ctx.body(n)
            gs = b.enum_guards(re.escape(SU) + r"TrackedSubstateValue$")
            if gs:
                check_no_live_otherwise(ctx, f"TrackedSubstateValue::{m}|exhaustive", b, re.escape(SU) + r"TrackedSubstateValue$", f"match in {m}")
    for fn in ("set_substate", "remove_substate", "create_node"):
        n = TI + fn
        if n in F.fns:
            touches = {x.split(".")[-1] for y in ctx.bodies_of(n) for x in y.fn.fr + y.fn.fw if x.startswith(T + ".")}
            ctx.ob(f"{fn}|tracked-state-only", "substate_db" not in touches or fn == "remove_substate", f"{fn} touches Track fields {sorted(touches)}", F.fns[n].loc())
    ctx.rule("T3 (limit counts returned keys): in MappedTrack::scan_keys the limit is compared with the number of keys already collected "
             "(items.len()), never applied to the tracked entries before the presence filter — an `Iterator::take(limit)` on the raw tracked "
             "entries lets removed / non-existent entries use up the limit and hides present writes that sort after them")
    sk = [x for x in F.fns if re.search(r"MappedTrack as .*CommitableSubstateStore>::scan_keys$", x)]
    ctx.ob("scan_keys|anchor", len(sk) == 1, f"scan_keys impls: {len(sk)}")
    for x in sk[:1]:
        bad = []
        lens = 0
        for b in ctx.bodies_of(x):
            lens += len(b.calls(r"alloc::vec::Vec(<[^>]*>)?::len$"))
            for bb, t in b.calls(r"Iterator(<[^>]*>)?::take$|::take$"):
                recv = origin_names(b, t["args"][0])
                if not any(re.search(r"::(filter|filter_map)$", r_) for r_ in recv):
                    bad.append((b.name.rsplit("::", 1)[-1], sorted(r_.rsplit("::", 1)[-1] for r_ in recv)))
        ctx.ob("scan_keys|limit-after-presence-filter", not bad and lens >= 1,
               f"limit tested against the collected keys ({lens} len() test(s)); no take() ahead of the presence filter" if not bad else
               f"take() applied to unfiltered entries {bad}: absent tracked entries consume the limit", ctx.body(x).loc())
    ctx.assume("observational equivalence with 'database overlaid with writes' (merge order, limit counting in scans/drains, exact state-change "
               "diff) is value-level and NOT decided; only the precedence / who-reads clauses above are")
