"""C33 Only valid signatures authorize a transaction — provenance of the signer set."""
import re
from lib import *
from c15 import arm_regions

SV = "radix_transactions::validation::signature_validator::"
VS = SV + "AllPendingSignatureValidations::validate_signatures"
PEN = SV + "PendingIntentSignatureValidations"


def run(ctx):
    F = ctx.F
    if not ctx.anchor(VS):
        return
    b = ctx.body(VS)
    gs = b.enum_guards(re.escape(PEN) + "$")
    ctx.ob("validate_signatures|match", len(gs) == 1 and gs[0][2] is None, f"{len(gs)} match(es) on PendingIntentSignatureValidations, no catch-all", b.loc())
    if not gs:
        return
    bb, ed, ow, si = gs[0]
    ex = arm_regions(b, bb, ed)
    oks = set(b.ok_exits())
    ctx.rule("provenance: in the non-preview arms every key inserted into the signer set originates from verify_and_recover(<that arm's "
             "signed_hash>, signature) succeeding, or is the notary key inserted behind verify(notarized_hash, notary_public_key, notary_signature) == true "
             "and under notary_is_signatory; the TransactionIntent arm cannot complete without the notary verification; DuplicateSigner and "
             "invalid-signature arms are doomed")
    for arm in ("TransactionIntent", "Subintent"):
        region = ex.get(arm, set())
        ins = [(x, t) for x, t in b.calls(r"IndexSet(<.*>)?::insert$") if x in region]
        ctx.ob(f"{arm}|inserts-present", len(ins) >= 1, f"{len(ins)} signer-set insert(s) in the {arm} arm", b.loc(bb))
        for x, t in ins:
            ats = b.origins(t["args"][1])
            names = origin_names(b, t["args"][1])
            rec = any(n == "call:" + SV + "verify_and_recover" for n in names)
            notary = any(a.kind == "param" and ".notary_public_key" in a.proj for a in ats)
            if rec and not notary:
                ok, _ = b.unreachable_without([x], pass_edges(b, G_try(re.escape(SV) + r"verify_and_recover$"))[0])
                ctx.ob(f"{arm}|insert-of-recovered-key", ok and names == {"call:" + SV + "verify_and_recover"}, f"inserted key originates from {sorted(names)}; behind a successful recovery: {ok}", b.loc(x))
            elif notary and not rec:
                e1, bl1 = pass_edges(b, G_bool_call(re.escape(SV) + r"verify$", True))
                ok1 = bool(bl1) and b.unreachable_without([x], e1)[0]
                e2, bl2 = [], []
                for sb, tru, fal, s2 in b.bool_guards(lambda a: a.kind == "param" and ".notary_is_signatory" in a.proj):
                    e2.append((sb, tru)); bl2.append(sb)
                ok2 = bool(bl2) and b.unreachable_without([x], e2)[0]
                ctx.ob(f"{arm}|insert-of-notary-key", ok1 and ok2, f"notary key inserted behind verify()==true: {ok1}; under notary_is_signatory: {ok2}", b.loc(x))
            else:
                ctx.ob(f"{arm}|insert-provenance", False, f"signer-set insert of a key originating from {sorted(names)} (neither a recovered key nor the verified notary key)", b.loc(x))
        # hashes used
        for x, t in b.calls(re.escape(SV) + r"verify_and_recover$"):
            if x in region:
                ok = any(a.kind == "param" and ".signed_hash" in a.proj for a in b.origins(t["args"][0], deep=True))
                ctx.ob(f"{arm}|recover-uses-signed_hash", ok, "verify_and_recover is given this arm's signed_hash", b.loc(x))
    # notary verification mandatory in the TransactionIntent arm
    arm = "TransactionIntent"
    e, bl = pass_edges(b, G_bool_call(re.escape(SV) + r"verify$", True))
    ok = bool(bl) and not (b.reach((ed[arm],), blocked_edges=e, blocked_blocks=[bb]) & oks)
    ctx.ob("TransactionIntent|notary-verification-mandatory", ok, "the TransactionIntent arm cannot reach Ok without verify(..) == true", b.loc(bl[0]) if bl else b.loc())
    for x, t in b.calls(re.escape(SV) + r"verify$"):
        fields = []
        for i, want in ((0, ".notarized_hash"), (1, ".notary_public_key"), (2, ".notary_signature")):
            fields.append(any(a.kind == "param" and want in a.proj for a in b.origins(t["args"][i], deep=True)))
        ctx.ob("TransactionIntent|verify-operands", all(fields), f"verify(notarized_hash, notary_public_key, notary_signature) operands from the matched variant: {fields}", b.loc(x))
    tg = b.try_guards(re.escape(SV) + r"verify_and_recover$")
    ok = len(tg) >= 2 and all(all(doomed(b, f) for f in fs) for _, ps, fs, _ in tg) and bool(agg_blocks(b, r"errors::SignatureValidationError$", "InvalidIntentSignature"))
    ctx.ob("rejection|InvalidIntentSignature", ok, f"{len(tg)} `verify_and_recover(..).ok_or(InvalidIntentSignature)?` site(s); the failing arm is doomed", b.loc())
    for v in ("DuplicateSigner", "InvalidNotarySignature", "NotaryIsSignatorySoShouldNotAlsoBeASigner"):
        sites = agg_blocks(b, r"errors::SignatureValidationError$", v)
        ctx.ob(f"rejection|{v}", bool(sites) and all(doomed(b, s) for s in sites), f"{len(sites)} site(s), all doomed", b.loc(sites[0]) if sites else b.loc())
    # every insert result is tested
    for x, t in b.calls(r"IndexSet(<.*>)?::insert$"):
        d = t["d"][0]
        used = any(any(a.kind == "call" and a.bb == x for a in b.switch_info(sb)["atoms"]) for sb in b.switches() if b.switch_info(sb)["kind"] == "bool")
        ctx.ob("insert-result-tested", used, "the bool result of IndexSet::insert feeds a branch (duplicate detection)", b.loc(x))

    ctx.rule("T4: Preview* variants (no verification) are constructed only from preview transaction types; the real variants from prepared "
             "notarized / signed-partial transactions whose own hashes feed signed_hash / notarized_hash")
    ctors = {}
    for f in F.fns.values():
        for v in f.vars:
            if v.startswith(PEN + "::") or v.startswith(SV + "PendingSubintentSignatureValidations::"):
                ctors.setdefault((f.root, v.rsplit("::", 1)[-1]), f)
    for (root, var), f in sorted(ctors.items()):
        prev = var.startswith("Preview")
        src_preview = "preview" in root.lower() or "for_subintent" in root
        ok = (prev and src_preview) or (not prev)
        ctx.ob(f"variant-source|{var}|{root.split('::')[-1]}", ok, f"{var} constructed in {root}", f.loc())
        if not prev and "for_subintent" not in root:
            for bd in ctx.bodies_of(root):
                for i in range(bd.n):
                    for s in bd.stmts(i):
                        if s["k"] == "=" and s["rv"]["k"] == "agg" and s["rv"].get("var") == var and "signed_hash" in (s["rv"].get("fields") or []):
                            o = s["rv"]["ops"][s["rv"]["fields"].index("signed_hash")]
                            names = origin_names(bd, o, deep=True)
                            ctx.ob(f"variant-source|{var}|{root.split('::')[-1]}|signed_hash", any("hash" in n.lower() for n in names) and any(n.startswith("param:") for n in names),
                                   f"signed_hash originates from {[n for n in sorted(names)][:4]}", bd.loc(i))
    ctx.floor("variant-constructors", len(ctors), 6)
    ctx.rule("shared with C48: the Ed25519 primitive every transaction signature goes through answers true only from verify_strict on its own "
             "operands (a non-strict verify accepts a message-independent signature under a small-order key, which would authorize any intent)")
    import c48
    c48.check_ed25519_strict(ctx)
    ctx.assume("byte-mutation resistance is cryptographic (the remaining C48 primitives are trusted)")
