"""C39 Account deposit rules are enforced exactly — guarded-deposit clause."""
import re
from lib import *

M = "radix_engine::blueprints::account::blueprint"
AB = M + "::AccountBlueprint"
BN = M + "::AccountBlueprintBottlenoseExtension"
DEP = re.escape(AB) + r"::deposit(_batch)?$"


def run(ctx):
    F = ctx.F
    ctx.rule("T2: in every try_deposit_* entry (original and Bottlenose extension) each AccountBlueprint::deposit / deposit_batch call is "
             "reachable only via (is_deposit_allowed == true | offending_buckets.is_empty()) OR (validate_badge_is_authorized_depositor "
             "succeeded AND validate_badge_is_present succeeded)")
    n_sites = 0
    for owner in (AB, BN):
        for fn in ("try_deposit_or_refund", "try_deposit_batch_or_refund"):
            name = f"{owner}::{fn}"
            if not ctx.anchor(name):
                continue
            b = ctx.body(name)
            deps = call_blocks(b, DEP)
            n_sites += len(deps)
            allowed = G_any([G_bool_call(re.escape(AB) + r"::is_deposit_allowed$", True),
                             G_bool_call(r"alloc::vec::Vec::is_empty$", True)], "allowed")
            k = f"{owner.rsplit('::',1)[1]}::{fn}"
            check_guarded(ctx, f"{k}|deposit-guarded", b, deps, [
                G_any([allowed, G_try(re.escape(AB) + r"::validate_badge_is_authorized_depositor$")],
                      "deposit allowed OR badge is an authorized depositor"),
                G_any([allowed, G_try(re.escape(AB) + r"::validate_badge_is_present$")],
                      "deposit allowed OR badge is present"),
            ], "AccountBlueprint::deposit*", min_targets=2)
            if "batch" not in fn:
                # the verdict that opens the deposit is is_deposit_allowed's result and nothing else
                for sb, tru, fal, si in b.call_bool_guards(re.escape(AB) + r"::is_deposit_allowed$"):
                    nm = origin_names(b, si["op"])
                    ctx.ob(f"{k}|verdict-is-the-deposit-rule", nm == {"call:" + AB + "::is_deposit_allowed"}, f"branch condition originates from {sorted(nm)}", b.loc(sb))
            if "batch" in fn:
                # the emptiness test is on the list of buckets that failed is_deposit_allowed
                cl = [x for x in ctx.bodies_of(name) if x.name != name]
                # closed world: the per-bucket verdict closures consult the deposit rule and nothing else
                dom = sorted({c[0] for x in cl for c in x.fn.calls if not re.match(r"^(<)?(core|alloc|std|indexmap)::", c[0])})
                allowed_dom = [r"NativeBucket>::resource_address$", re.escape(AB) + r"::is_deposit_allowed$"]
                extra = [d for d in dom if not any(re.search(a, d) for a in allowed_dom)]
                ctx.ob(f"{k}|verdict-closures-consult-only-the-deposit-rule", not extra,
                       "the per-bucket verdict closures call only resource_address and is_deposit_allowed" if not extra else
                       f"the per-bucket verdict also depends on {extra}: the allow/deny decision is no longer the deposit rule alone", b.loc())
                calls_allowed = any(x.calls(re.escape(AB) + r"::is_deposit_allowed$") for x in cl)
                ctx.ob(f"{k}|offending-from-is_deposit_allowed", calls_allowed, "a closure of the batch function evaluates is_deposit_allowed per bucket", b.loc())
                good_filter = False
                for x in cl:
                    somes = agg_blocks(x, r"core::option::Option$", "Some")
                    if not somes or x.calls(re.escape(AB) + r"::is_deposit_allowed$"):
                        continue
                    # Some(bucket) only when can_be_deposited is false
                    e, bl = [], []
                    for bb, tru, fal, si in x.bool_guards(lambda a: a.kind == "param"):
                        e.append((bb, fal)); bl.append(bb)
                    if bl and x.unreachable_without(somes, e)[0]:
                        good_filter = True
                ctx.ob(f"{k}|offending-filter-polarity", good_filter, "the filter keeps a bucket as offending only when can_be_deposited is false", b.loc())
                for bb, t in b.calls(r"alloc::vec::Vec::is_empty$"):
                    nm = origin_names(b, t["args"][0], deep=True)
                    ctx.ob(f"{k}|is_empty-of-offending", any("collect" in x for x in nm), f"is_empty() receiver originates from {sorted(nm)[:4]}", b.loc(bb))
    ctx.floor("guarded-deposit-sites", n_sites, 8)
    for owner in (AB,):
        for fn, inner in (("try_deposit_or_abort", "try_deposit_or_refund"), ("try_deposit_batch_or_abort", "try_deposit_batch_or_refund")):
            name = f"{owner}::{fn}"
            if ctx.anchor(name):
                b = ctx.body(name)
                ok = bool(b.calls(re.escape(owner) + "::" + inner + "$")) and not b.calls(DEP)
                ctx.ob(f"{fn}|delegates", ok, f"{fn} deposits only through {inner}", b.loc())
                # Ok(()) only when nothing was refunded
                oks = b.ok_exits()
                g = G_any([G_enum(r"core::option::Option$", ["None"], lambda a: a.kind == "call" and a.what.endswith(inner)),
                           G_bool_call(r"core::option::Option::is_some$", False), G_bool_call(r"core::option::Option::is_none$", True)],
                          "nothing was refunded")
                check_guarded(ctx, f"{fn}|ok-only-if-all-deposited", b, oks, [g], "Ok(()) return")

    ctx.rule("T5: is_deposit_allowed matches ResourcePreference and DefaultDepositRule without a catch-all arm; "
             "Disallowed/Reject arms return false, Allowed/Accept arms true")
    name = AB + "::is_deposit_allowed"
    if ctx.anchor(name):
        b = ctx.body(name)
        check_no_live_otherwise(ctx, "is_deposit_allowed|DefaultDepositRule", b, r"::DefaultDepositRule$", "match on DefaultDepositRule")
        check_no_live_otherwise(ctx, "is_deposit_allowed|ResourcePreference", b, r"::ResourcePreference$", "match on ResourcePreference")

        def const_ok_blocks(val):
            out = []
            for bb, kind, s in b.defs(0):
                if kind == "=" and s["rv"]["k"] == "agg" and s["rv"].get("var") == "Ok":
                    o = s["rv"]["ops"][0]
                    if o[0] == "k" and o[1].get("v") == val:
                        out.append(bb)
            return out
        trues, falses = const_ok_blocks("1"), const_ok_blocks("0")
        for en, tv, fv in ((r"::ResourcePreference$", "Allowed", "Disallowed"), (r"::DefaultDepositRule$", "Accept", "Reject")):
            for bb, ed, ow, si in b.enum_guards(en):
                t_ok = tv in ed and bool(b.reach((ed[tv],)) & set(trues)) and not (b.reach((ed[tv],)) & set(falses))
                f_ok = fv in ed and bool(b.reach((ed[fv],)) & set(falses)) and not (b.reach((ed[fv],)) & set(trues))
                ctx.ob(f"is_deposit_allowed|{tv}-true", t_ok, f"{tv} arm returns Ok(true) only", b.loc(bb))
                ctx.ob(f"is_deposit_allowed|{fv}-false", f_ok, f"{fv} arm returns Ok(false) only", b.loc(bb))
    ctx.assume("exact rule semantics (AllowExisting/XRD) and 'only that account's vaults change' are not decided")
