"""C29 Calendar time conversions — the 'parsing any text never panics' clause (panic surface of the date-time parser)."""
import re
from lib import *

U = "radix_common::time::utc_date_time::UtcDateTime"
FROM_STR = "<" + U + " as core::str::traits::FromStr>::from_str"


def len_eq_guards(body):
    """[(edge, N)] for branches on `<something>.len() == N`"""
    out = []
    for sb in body.switches():
        si = body.switch_info(sb)
        if not si or si["kind"] != "bool":
            continue
        for a in si["atoms"]:
            if a.kind == "bin" and a.what == "Eq":
                ops = [a.extra["a"], a.extra["b"]]
                consts = [o for o in ops if o[0] == "k" and str(o[1].get("v", "")).isdigit()]
                lens = [o for o in ops if o[0] != "k" and any(x.kind == "call" and re.search(r"::len$", x.what) for x in body.origins(o))]
                if consts and lens:
                    out.append(((sb, si["true"]), int(consts[0][1]["v"])))
    return out


def str_slice_discharge(body, kind, bb, t):
    """a `s[a..b]` on a &str is safe when dominated by s.is_ascii()==true (every byte index is a char boundary and
    chars().count()==len()) and by a `len == N` test with b <= N"""
    if kind != "index:str[range]":
        return False
    asc, ablocks = pass_edges(body, G_bool_call(r"(str|<impl str>)::is_ascii$", True))
    if not ablocks or not body.unreachable_without([bb], asc)[0]:
        return False
    # constant range end
    end = None
    for a in body.origins(t["args"][1]):
        if a.kind == "agg" and a.what.startswith("core::ops::range::Range") and a.extra.get("ops"):
            o = a.extra["ops"][-1]
            if o[0] == "k" and str(o[1].get("v", "")).isdigit():
                end = int(o[1]["v"])
    if end is None:
        return False
    for edge, n in len_eq_guards(body):
        if end <= n and body.unreachable_without([bb], [edge])[0]:
            return True
    return False


def run(ctx):
    F = ctx.F
    ctx.level = "other"
    ctx.explanation = ("Audited panic surface (T6): every panic-capable MIR construct of the date-time parser is enumerated; each is discharged by a "
                       "local dominance rule (constant index under a len()==N test; &str range slice under is_ascii()==true and a length test) or "
                       "must match an audited multiset entry with its reason. Calendar arithmetic (from_instant/to_instant overflow asserts) is "
                       "value-range dependent and NOT decided.")
    ctx.rule("T6 over <UtcDateTime as FromStr>::from_str: every &str range slice (panics off a char boundary) is dominated by a byte-level guard "
             "(is_ascii()==true plus a length test covering the slice end); constant Vec indexes are dominated by len()==N with index < N")
    if ctx.anchor(FROM_STR):
        bodies = ctx.bodies_of(FROM_STR)
        total, dis, listed = check_panic_surface(ctx, "from_str", bodies, {}, discharge=str_slice_discharge, what="date-time parser")
        ctx.ob("from_str|sites-enumerated", total >= 12, f"{total} panic-capable construct(s) enumerated in from_str, {dis} discharged by dominance rules", bodies[0].loc())
        ctx.sample({"fn": FROM_STR, "panic_capable_sites": total, "discharged": dis})
    ctx.rule("T6 over UtcDateTime::new (called by the parser with parsed numbers): the `month - 1` subtraction and the table index are "
             "dominated by the (1..=12).contains(&month) test")
    n = U + "::new"
    if ctx.anchor(n):
        b = ctx.body(n)
        sites = [bb for k, bb, d in panic_sites(b)]
        ctx.ob("new|sites", len(sites) <= 2, f"{len(sites)} panic-capable construct(s) in UtcDateTime::new (audited: month-1, table index)", b.loc())
        check_guarded(ctx, "new|month-guard", b, sites, [G_bool_call(r"RangeInclusive(<.*>)?::contains$|::contains$", True)],
                      "month-1 / LEAP_YEAR_DAYS_IN_MONTHS[month-1]", min_targets=1)
        # is_leap_year: remainder by non-zero constants only
        m = U + "::is_leap_year"
        if m in F.fns:
            ps = panic_sites(ctx.body(m))
            ctx.ob("is_leap_year|panic-free", not ps, f"panic-capable constructs in is_leap_year: {ps}", ctx.body(m).loc())
    ctx.rule("T9 constants of the Gregorian leap-year rule: UtcDateTime::is_leap_year tests divisibility by 4, 100 and 400 (as "
             "is_multiple_of / % constants), or the equivalent bit form (multiple of 25, masks 3 and 15) — any other constant set is a different "
             "calendar than the 400/100/4-year cycles from_instant uses")
    ly = [x for x in F.fns if x.endswith("UtcDateTime::is_leap_year")]
    ctx.ob("is_leap_year|anchor", len(ly) == 1, f"is_leap_year: {len(ly)}")
    for x in ly[:1]:
        b = ctx.body(x)
        ks = set()
        for bb, t in b.calls(r"::is_multiple_of$"):
            v = b.const_value(t["args"][1])
            if v is not None:
                ks.add(v)
        for i in range(b.n):
            for st in b.stmts(i):
                if st["k"] == "=" and st["rv"]["k"] == "bin" and re.match(r"Rem|BitAnd|Div", st["rv"]["op"]):
                    v = b.const_value(st["rv"]["b"])
                    if v is not None:
                        ks.add(v)
        ok = ks in ({4, 100, 400}, {25, 3, 15}, {4, 25, 16}, {4, 100, 16})
        ctx.ob("is_leap_year|gregorian-constants", ok, f"divisibility / mask constants used: {sorted(ks)}", b.loc())
    ctx.assume("calendar arithmetic, monotonicity and round-trips are value-level and not decided")
