"""C47 Host memory access from WASM is always bounds-checked."""
import re
from lib import *

W = "radix_engine::vm::wasm::wasmi"
MEM = r"^wasmi::memory::Memory::(data|data_mut|data_and_store_mut|read|write|data_ptr)$"


def run(ctx):
    F = ctx.F
    ctx.rule("T4: wasmi linear memory (Memory::data/data_mut/read/write/data_ptr) is touched only by wasmi.rs::{read_memory, write_memory}")
    callers = who_calls(F, MEM)
    check_who_may(ctx, "who-touches-linear-memory", callers, {
        re.escape(W) + r"::(read_memory|write_memory)$": "the two bounds-checked helpers",
    }, "direct access to WASM linear memory")
    ctx.floor("who-touches-linear-memory", len(callers), 2)

    ctx.rule("T2: in read_memory the slice of linear memory is taken only when NOT(ptr > len(mem)) and NOT(ptr+len > len(mem)); "
             "in write_memory Memory::write is reached only past the same two tests")
    LEN = [r"^call:\[T\]::len$"]
    n = W + "::read_memory"
    if ctx.anchor(n):
        b = ctx.body(n)
        targets = call_blocks(b, r"core::ops::index::Index.*::index$|::get_unchecked|core::slice::raw::from_raw_parts")
        if not targets and b.calls(r"\[T\]::get$|core::slice::<impl \[T\]>::get$"):
            ctx.ob("read_memory|checked-get", True, "read_memory uses the checked slice::get form", b.loc())
        else:
            check_guarded(ctx, "read_memory|bounds", b, targets, [
                G_bin(r"Gt", [r"^param:3$"], LEN, "ptr > mem.len() is false", False),
                G_bin(r"Gt", [r"^bin:Add", r"^param:3$", r"^param:4$"], LEN, "ptr + len > mem.len() is false", False),
            ], "slice of linear memory")
            # the slice bounds are the checked quantities
            for bb, t in b.calls(r"core::ops::index::Index.*::index$"):
                rng = origin_names(b, t["args"][1], deep=True)
                ok = "param:3" in rng and "param:4" in rng and not any(x.startswith("const:") and x not in ("const:",) for x in rng)
                ctx.ob("read_memory|slice-uses-checked-operands", ok, f"range operands originate from {sorted(rng)}", b.loc(bb))
        # len() compared against is that of Memory::data
        lens = b.calls(r"^\[T\]::len$")
        ok = bool(lens) and all(any(x.endswith("Memory::data") for x in origin_names(b, t["args"][0])) for _, t in lens)
        ctx.ob("read_memory|len-of-linear-memory", ok, "every len() in read_memory is that of Memory::data(..)", b.loc())
        _overflow(ctx, b, "read_memory")
    n = W + "::write_memory"
    if ctx.anchor(n):
        b = ctx.body(n)
        targets = call_blocks(b, r"^wasmi::memory::Memory::write$")
        check_guarded(ctx, "write_memory|bounds", b, targets, [
            G_bin(r"Gt", [r"^param:3$"], LEN, "ptr > mem.len() is false", False),
            G_bin(r"Gt", [r"^bin:Add", r"^param:3$", r"^(param:4|call:\[T\]::len)$"], LEN, "ptr + data.len() > mem.len() is false", False),
        ], "Memory::write")
        ctx.ob("write_memory|uses-checked-write", not b.calls(r"Memory::(data_mut|data_ptr)$|copy_from_slice|copy_nonoverlapping"),
               "write_memory writes through wasmi's own bounds-checked Memory::write", b.loc())
        _overflow(ctx, b, "write_memory")

    ctx.rule("who-may-call: every host function reaches linear memory only through read_memory/write_memory/read_slice "
             "(raw pointer arithmetic / unsafe slices are absent from vm::wasm::wasmi)")
    bad = []
    for f in F.fns.values():
        if f.mod == W:
            for c in f.calls:
                if re.search(r"core::slice::raw::from_raw_parts|core::ptr::(read|write|copy)|::get_unchecked", c[0]) and not c[3]:
                    bad.append((f.name, c[0]))
    ctx.ob("wasmi|no-raw-memory-ops", not bad, f"raw memory operations in vm::wasm::wasmi: {bad or 'none'}")
    ctx.rule("argument flow: every `*_ptr` / `*_len` u32 parameter of a wasmi host function is consumed only by read_memory / write_memory "
             "(never used in other arithmetic or passed to another callee)")
    n_params, n_bad = 0, []
    for f in F.fns.values():
        if f.mod != W or f.kind != "Fn" or f.parent:
            continue
        b = ctx.body(f.name)
        if not b.locals or len(b.locals) < 2 or "Caller" not in b.locals[1][0]:
            continue
        ptrs = [i for i in range(1, b.argc + 1) if b.locals[i][0] == "u32" and len(b.locals[i]) > 1 and re.search(r"(_ptr|_len)$", b.locals[i][1])]
        for pi in ptrs:
            n_params += 1
            sinks = set()
            for bb, t in b.calls(None):
                for a in t["args"]:
                    at = b.origins(a)
                    if any(x.kind == "param" and x.what == pi for x in at):
                        sinks.add(t["f"])
            other = False
            for i in range(b.n):
                for st in b.stmts(i):
                    rv = st["rv"] if st["k"] == "=" else {}
                    if rv.get("k") in ("bin", "cast"):
                        ops = [rv.get("a"), rv.get("b"), rv.get("o")]
                        if any(o and o[0] != "k" and any(x.kind == "param" and x.what == pi for x in b.origins(o)) for o in ops):
                            other = True
            good = bool(sinks) and all(re.search(re.escape(W) + r"::(read_memory|write_memory|read_slice)$", x) for x in sinks) and not other
            if not good:
                n_bad.append((f.name.split("::")[-1], b.locals[pi][1], sorted(x.split("::")[-1] for x in sinks), other))
    ctx.floor("host-pointer-params", n_params, 60)
    ctx.ob("host-functions|pointer-params-only-reach-checked-helpers", not n_bad, f"{n_params} pointer/length parameters examined; offenders: {n_bad or 'none'}")
    rm = who_calls(F, re.escape(W) + r"::(read_memory|write_memory|read_slice)$")
    ctx.floor("host-functions-using-helpers", len(rm), 30)
    ctx.assume("64-bit usize (sum of two u32-derived usize values cannot overflow); wasmi's Memory::write is itself bounds-checked (trusted)")


def _overflow(ctx, b, fn):
    """T6 discharge: every usize addition adds values that are u32-derived or slice lengths (no overflow on a 64-bit target)"""
    for i in range(b.n):
        t = b.term(i)
        if t["k"] == "assert" and t["ak"].startswith("Overflow(Add)"):
            oks = []
            for o in (t["a"], t["b"]):
                good = False
                for a in b.origins(o):
                    pass
                names = origin_names(b, o)
                # operand is a cast from a u32 local, or a slice length
                good = all(n in ("call:[T]::len",) or n.startswith("param:") for n in names) and bool(names)
                if good:
                    for a in b.origins(o):
                        if a.kind == "param" and b.locals[a.what][0] not in ("u32", "&[u8]"):
                            good = False
                oks.append(good)
            m = re.search(r"<([iu])(\d+|size)>", t["ak"])
            wide = bool(m) and (m.group(2) == "size" or int(m.group(2)) >= 64)
            ctx.ob(f"{fn}|add-cannot-overflow", all(oks) and wide,
                   f"{t['ak']}: addition of u32-derived / slice-length operands " + ("performed in a 64-bit type (cannot overflow)" if wide else
                   "performed in a type no wider than its u32 operands: ptr + len can overflow before the bounds test (panic in checked builds, wrap-around past the test otherwise)"), b.loc(i))
