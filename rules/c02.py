"""C02 Failed, rejected and aborted transactions change nothing but fees — revert ordering, FORCE_WRITE confinement,
non-commit results carry no state."""
import re
from lib import *
from c13 import flag_guard
from c51 import sysfn

SC = "radix_engine::system::system_callback::System"
TRK = "radix_engine::track::track::MappedTrack"
SU = "radix_engine::track::state_updates"


def flagconst_guard(body, flags_ty, flag, want):
    """branch on <flags_ty>::contains(_, <flag>)"""
    edges, blocks = [], []
    for bb, tru, fal, si in body.call_bool_guards(flags_ty + r"::contains$"):
        for a in si["atoms"]:
            if a.kind == "call" and a.what.endswith(flags_ty + "::contains"):
                if any(x.kind == "const" and str(x.what).endswith(flags_ty + "::" + flag) for x in body.origins(a.extra["args"][1])):
                    edges.append((bb, tru if want else fal))
                    blocks.append(bb)
    return edges, blocks


def run(ctx):
    F = ctx.F
    # ------------------------------------------------------------------ R1 revert before every post-execution write
    ctx.rule("T2+T3 in System::create_commit_receipt: on the not-success sub-CFG every path to finalize_fees_for_commit / "
             "update_transaction_tracker / Track::finalize passes revert_non_force_write_changes and revert_royalty; the revert is not "
             "reachable from any post-execution writer; is_success passed on is the same Result::is_ok(outcome)")
    name = SC + "::create_commit_receipt"
    if ctx.anchor(name):
        b = ctx.body(name)
        rev = call_blocks(b, re.escape(TRK) + r"::revert_non_force_write_changes$")
        roy = call_blocks(b, r"fee_reserve::SystemLoanFeeReserve::revert_royalty$")
        ctx.floor("create_commit_receipt|revert-call", len(rev), 1)
        ctx.floor("create_commit_receipt|revert_royalty-call", len(roy), 1)
        succ_true = []
        isok_blocks = []
        for bb, tru, fal, si in b.call_bool_guards(r"core::result::Result::is_ok$"):
            succ_true.append((bb, tru))
            isok_blocks.append(bb)
        ctx.floor("create_commit_receipt|is_ok-branch", len(isok_blocks), 1)
        writers = {
            "finalize_fees_for_commit": call_blocks(b, re.escape(SC) + r"::finalize_fees_for_commit$"),
            "update_transaction_tracker": call_blocks(b, re.escape(SC) + r"::update_transaction_tracker$"),
            "Track::finalize": call_blocks(b, re.escape(TRK) + r"::finalize$"),
            "to_state_updates": call_blocks(b, r"TrackedSubstates::to_state_updates$"),
        }
        for w, blocks in writers.items():
            if not blocks:
                ctx.ob(f"create_commit_receipt|{w}|present", False, f"call to {w} not found", b.loc())
                continue
            for what, must in (("revert_non_force_write_changes", rev), ("revert_royalty", roy)):
                r = b.reach((0,), blocked_edges=succ_true, blocked_blocks=must)
                ok = bool(must) and not (set(blocks) & r)
                ctx.ob(f"create_commit_receipt|{what}-before-{w}", ok,
                       f"on the failure path {w} is " + ("only reachable after " if ok else "reachable WITHOUT ") + what, b.loc(blocks[0]))
            # T3: revert not reachable from the writer
            after = set()
            for wb in blocks:
                after |= b.reach(tuple(b.succs(wb)))
            ctx.ob(f"create_commit_receipt|revert-not-after-{w}", not (after & set(rev)),
                   f"revert_non_force_write_changes is not reachable from {w}", b.loc(blocks[0]))
        # the revert must not run on the success path
        r = b.reach((0,), blocked_edges=[(bb, si["false"]) for bb, tru, fal, si in b.call_bool_guards(r"core::result::Result::is_ok$")])
        ctx.ob("create_commit_receipt|no-revert-on-success", not (set(rev) & r), "revert is not reachable when outcome.is_ok()", b.loc())
        # is_success forwarding
        for callee, idx in ((re.escape(SC) + r"::finalize_fees_for_commit$", 2), (re.escape(SC) + r"::update_transaction_tracker$", 3),
                            (r"transaction_runtime::module::TransactionRuntimeModule::finalize$", 1)):
            check_arg_origin(ctx, f"create_commit_receipt|is_success-arg|{callee.split('::')[-1].rstrip('$')}", b, callee, idx,
                             r"^call:core::result::Result::is_ok$", "is_success argument")

    # ------------------------------------------------------------------ R2 events of a failed transaction
    ctx.rule("T2 in TransactionRuntimeModule::finalize: an event is kept only if is_success or its flags contain FORCE_WRITE")
    name = "radix_engine::system::system_modules::transaction_runtime::module::TransactionRuntimeModule::finalize"
    if ctx.anchor(name):
        b = ctx.body(name)
        pushes = call_blocks(b, r"alloc::vec::Vec::push$")

        def succ_param(body):
            e, bl = [], []
            for bb, tru, fal, si in body.bool_guards(lambda a: a.kind == "param" and a.what == 2):
                e.append((bb, tru)); bl.append(bb)
            return e, bl
        g = G_any([G_custom(succ_param, "is_success"),
                   G_custom(lambda body: flagconst_guard(body, "EventFlags", "FORCE_WRITE", True), "FORCE_WRITE")],
                  "is_success == true OR flags.contains(EventFlags::FORCE_WRITE)")
        check_guarded(ctx, "runtime-finalize|event-kept", b, pushes, [g], "results.push(event)")

    # ------------------------------------------------------------------ R3 revert state machine
    ctx.rule("T5 in TrackedSubstateValue::revert_writes: no catch-all arm; every write-carrying variant is overwritten with Garbage or ReadOnly")
    name = SU + "::TrackedSubstateValue::revert_writes"
    if ctx.anchor(name):
        b = ctx.body(name)
        check_no_live_otherwise(ctx, "revert_writes|exhaustive", b, re.escape(SU) + r"::TrackedSubstateValue$", "match in revert_writes")
        rets = set(b.returns())
        resets = set(agg_blocks(b, re.escape(SU) + r"::TrackedSubstateValue$", "Garbage") + agg_blocks(b, re.escape(SU) + r"::TrackedSubstateValue$", "ReadOnly"))
        full = set(F.enums.get(SU + "::TrackedSubstateValue", {}).values())
        writeful = full - {"ReadOnly", "Garbage"}
        ctx.ob("revert_writes|variants-known", writeful == {"New", "WriteOnly", "ReadExistAndWrite", "ReadNonExistAndWrite"},
               f"write-carrying variants of TrackedSubstateValue: {sorted(writeful)} (a new variant needs a revert rule)", b.loc())
        for bb, ed, ow, si in b.enum_guards(re.escape(SU) + r"::TrackedSubstateValue$"):
            for v in sorted(writeful):
                s = ed.get(v, ow)
                ok = s is not None and not (b.reach((s,), blocked_blocks=resets) & rets)
                ctx.ob(f"revert_writes|{v}-reset", ok, f"arm of {v} " + ("always" if ok else "does NOT always") + " overwrite *self with Garbage/ReadOnly", b.loc(bb))
    name = TRK + "::revert_non_force_write_changes"
    if ctx.anchor(name):
        bs = ctx.bodies_of(name)
        b = ctx.body(name)
        rets = set(b.returns())
        for what, pat in (("drops new nodes (retain)", r"indexmap::map::IndexMap::retain$|::retain$"),
                          ("reverts every tracked node", re.escape(SU) + r"::TrackedNode::revert_writes$")):
            blocks = call_blocks(b, pat)
            ok = bool(blocks) and (what.startswith("reverts") or not (b.reach((0,), blocked_blocks=blocks) & rets))
            ctx.ob(f"revert_non_force_write_changes|{what.split()[0]}", ok, f"revert_non_force_write_changes {what}: {len(blocks)} site(s)", b.loc())
        reads_is_new = any(any(x.endswith("TrackedNode.is_new") for x in bb.fn.fr) for bb in bs)
        ctx.ob("revert_non_force_write_changes|retain-on-is_new", reads_is_new, "the retain predicate reads TrackedNode.is_new", b.loc())
        # restored values come only from force_write_tracked_nodes
        srcs = [x for bb in bs for x in bb.fn.fr if x.startswith(TRK + ".")] + [x for bb in bs for x in bb.fn.fw if x.startswith(TRK + ".")]
        ctx.ob("revert_non_force_write_changes|fields", set(srcs) <= {TRK + ".tracked_nodes", TRK + ".force_write_tracked_nodes"},
               f"Track fields touched by the revert: {sorted(set(srcs))}", b.loc())
    for n in (SU + "::TrackedNode::revert_writes", SU + "::TrackedPartition::revert_writes"):
        if ctx.anchor(n):
            b = ctx.body(n)
            ctx.ob(f"{n.split('::')[-2]}::revert_writes|delegates", bool(b.calls(r"::revert_writes$")), "delegates to the contained revert_writes", b.loc())

    # ------------------------------------------------------------------ R5 FORCE_WRITE confinement
    ctx.rule("T4: LockFlags::FORCE_WRITE / EventFlags::FORCE_WRITE are mentioned only by the audited functions "
             "(fungible vault lock_fee constructs it; system openers reject it; substate_io honours it)")
    users = {}
    for f in F.fns.values():
        if any(re.search(r"(LockFlags|EventFlags)::FORCE_WRITE$", c) for c in f.consts):
            users[f.root] = f
    check_who_may(ctx, "who-mentions-FORCE_WRITE", users, {
        r"::FungibleVaultBlueprint::lock_fee$": "the one legitimate producer of a FORCE_WRITE open (fee lock)",
        r"::(actor_open_field|actor_open_key_value_entry|key_value_store_open_entry)$": "system openers: reject/limit the flag",
        r"SubstateIO::close_substate$": "honours the flag (force_write)",
        r"::actor_emit_event$": "rejects the event flag unless the actor is the fungible vault",
        r"SystemCostingApi<[^>]*>>::(lock_fee|start_lock_fee)$": "fee-lock events are force-written",
        r"TransactionRuntimeModule::finalize$": "keeps force-written events on failure",
        r"__BitFlags>::FORCE_WRITE$|as core::fmt::Debug>::fmt": "bitflags-generated code",
        r"^radix_native_sdk::runtime::runtime::Runtime::emit_event_no_revert$": "SDK helper; reaches the system only via actor_emit_event (guarded)",
    }, "mention of a FORCE_WRITE flag")
    ctx.floor("who-mentions-FORCE_WRITE", len(users), 8)

    ctx.rule("T2: the three system openers reject FORCE_WRITE/UNMODIFIED_BASE (InvalidLockFlags) before opening; actor_open_field lets "
             "them through only for (RESOURCE_PACKAGE, FUNGIBLE_VAULT_BLUEPRINT)")
    for opener in ("key_value_store_open_entry", "actor_open_key_value_entry"):
        root = sysfn(F, opener)
        b = the_body(ctx, root, r"kernel_open_substate") if root else None
        if b is None:
            ctx.ob(f"anchor|{opener}", False, "opener not found")
            continue
        for flag in ("FORCE_WRITE", "UNMODIFIED_BASE"):
            check_guarded(ctx, f"{opener}|rejects-{flag}", b, call_blocks(b, r"kernel_open_substate"),
                          [G_custom(lambda body, fl=flag: flag_guard(body, fl, False), f"flags.contains({flag}) == false")],
                          "kernel_open_substate*")
    root = sysfn(F, "actor_open_field")
    b = the_body(ctx, root, r"kernel_open_substate") if root else None
    if b is not None:
        opens = call_blocks(b, r"kernel_open_substate")
        for flag in ("FORCE_WRITE", "UNMODIFIED_BASE"):
            g = G_any([G_custom(lambda body, fl=flag: flag_guard(body, fl, False), "flag absent"),
                       G_cmp(r"const:.*RESOURCE_PACKAGE\]?$|const:.*FUNGIBLE_VAULT_BLUEPRINT$", r"call:.*get_actor_field_info$", "vault", equal=True)],
                      f"flags.contains({flag}) == false OR blueprint == (RESOURCE_PACKAGE, FUNGIBLE_VAULT_BLUEPRINT)")
            check_guarded(ctx, f"actor_open_field|{flag}-only-for-vault", b, opens, [g], "kernel_open_substate*", min_targets=2)
        cs = sorted(c.rsplit("::", 1)[-1] for bb in ctx.bodies_of(root) for c in bb.fn.consts if c.endswith("_BLUEPRINT") or c.endswith("_PACKAGE"))
        ctx.ob("actor_open_field|exemption-constants", cs == ["FUNGIBLE_VAULT_BLUEPRINT", "RESOURCE_PACKAGE"], f"package/blueprint constants in actor_open_field: {cs}", b.loc())
    else:
        ctx.ob("anchor|actor_open_field", False, "opener not found")
    root = sysfn(F, "actor_emit_event")
    b = the_body(ctx, root, r"emit_event_internal$") if root else None
    if b is not None:
        g = G_any([G_custom(lambda body: flagconst_guard(body, "EventFlags", "FORCE_WRITE", False), "flag absent"),
                   G_cmp(r"const:.*RESOURCE_PACKAGE\]?$", r"call:.*actor_get_blueprint_id$", "pkg", equal=True)], "no FORCE_WRITE OR actor package == RESOURCE_PACKAGE")
        g2 = G_any([G_custom(lambda body: flagconst_guard(body, "EventFlags", "FORCE_WRITE", False), "flag absent"),
                    G_cmp(r"const:.*FUNGIBLE_VAULT_BLUEPRINT\]?$", r"call:.*actor_get_blueprint_id$", "bp", equal=True)], "no FORCE_WRITE OR actor blueprint == FUNGIBLE_VAULT_BLUEPRINT")
        check_guarded(ctx, "actor_emit_event|force-write-only-vault", b, call_blocks(b, r"emit_event_internal$"), [g, g2], "emit_event_internal")
    else:
        ctx.ob("anchor|actor_emit_event", False, "actor_emit_event not found")

    # ------------------------------------------------------------------ R6 what is written after the revert
    ctx.rule("argument-origin table: after the revert, finalize_fees_for_commit writes only FungibleVault Balance fields (royalty recipient "
             "vaults, paying vaults, validator-rewards vault) and the ConsensusManager ValidatorRewards field; update_transaction_tracker "
             "writes only under the TRANSACTION_TRACKER node; the only events fabricated by finalisation are fee events")
    n = SC + "::finalize_fees_for_commit"
    if ctx.anchor(n):
        b = ctx.body(n)
        sets = b.calls(r"::set_substate$")
        ctx.floor("finalize_fees|set_substate-sites", len(sets), 4)
        for bb, t in sets:
            key = origin_names(b, t["args"][3])
            keyok = any(re.search(r"agg:.*(FungibleVaultField::Balance|ConsensusManagerField::ValidatorRewards)$", x) for x in key) and \
                not any(x.startswith("agg:") and not re.search(r"(FungibleVaultField::Balance|ConsensusManagerField::ValidatorRewards)$", x) for x in key)
            part = origin_names(b, t["args"][2])
            node = origin_names(b, t["args"][1], deep=True)
            nodeok = any(re.search(r"RoyaltyRecipient::vault_id$|rev::Rev|locked_fees|into_unique_version|CONSENSUS_MANAGER|ComponentAddress::into_node_id$", x) for x in node)
            ctx.ob("finalize_fees|writes-only-fee-substates", keyok and part == {"const:radix_engine_interface::types::node_layout::MAIN_BASE_PARTITION"} and nodeok,
                   f"set_substate(node from {[x.split('::')[-1] for x in sorted(node) if x.startswith('call:')][:3]}, {sorted(part)}, key {sorted(k.split('::')[-2]+'::'+k.split('::')[-1] for k in key if k.startswith('agg:'))})", b.loc(bb))
        evs = sorted({x.rsplit("::", 1)[-1] for y in ctx.bodies_of(n) for x in y.fn.structs if x.endswith("Event")} | {v.split("::")[-2] + "::" + v.split("::")[-1] for y in ctx.bodies_of(n) for v in y.fn.vars if "Event::" in v})
        ctx.ob("finalize_fees|only-fee-events", set(evs) <= {"DepositEvent", "PayFeeEvent", "BurnFungibleResourceEvent"} and bool(evs), f"events constructed by fee finalisation: {evs}", b.loc())
    n = SC + "::update_transaction_tracker"
    if ctx.anchor(n):
        b = ctx.body(n)
        for bb, t in b.calls(r"::set_substate$|::delete_partition$"):
            node = origin_names(b, t["args"][1], deep=True)
            ctx.ob("update_transaction_tracker|writes-only-tracker-node", any("TRANSACTION_TRACKER" in x for x in node) and not any(x.startswith("param:") for x in node),
                   f"{t['f'].split('::')[-1]} targets node from {sorted(node)[:3]}", b.loc(bb))

    # ------------------------------------------------------------------ R7 un-revertable track operations
    ctx.rule("T4: Track::delete_partition (not undone by the revert) is called only from update_transaction_tracker; "
             "force_write only from SubstateIO::close_substate under the FORCE_WRITE test")
    callers = who_calls(F, r"(CommitableSubstateStore|track::track::Track[^:]*)(>)?::delete_partition$")
    check_who_may(ctx, "who-calls-delete_partition", callers, {r"system_callback::System::update_transaction_tracker$": "tracker ring rotation during finalisation"},
                  "caller of Track::delete_partition")
    ctx.floor("who-calls-delete_partition", len(callers), 1)
    callers = who_calls(F, r"(CommitableSubstateStore|track::track::Track[^:]*)(>)?::force_write$")
    check_who_may(ctx, "who-calls-force_write", callers, {r"kernel::substate_io::SubstateIO::close_substate$": "close of a FORCE_WRITE handle"},
                  "caller of force_write")
    ctx.floor("who-calls-force_write", len(callers), 1)
    n = "radix_engine::kernel::substate_io::SubstateIO::close_substate"
    if ctx.anchor(n):
        b = ctx.body(n)
        check_guarded(ctx, "close_substate|force_write-guard", b, call_blocks(b, r"::force_write$"),
                      [G_custom(lambda body: flag_guard(body, "FORCE_WRITE", True), "flags.contains(FORCE_WRITE) == true")], "store.force_write")

    # ------------------------------------------------------------------ R8 only commit receipts carry state
    ctx.rule("T4: Track::finalize / TrackedSubstates::to_state_updates / CommitResult construction occur only in create_commit_receipt; "
             "rejection and abort receipts are built by functions that do not receive the Track")
    callers = who_calls(F, re.escape(TRK) + r"::finalize$|TrackedSubstates::to_state_updates$")
    check_who_may(ctx, "who-finalizes-track", callers, {r"system_callback::System::create_commit_receipt$": "the commit path"}, "caller of Track::finalize/to_state_updates")
    ctx.floor("who-finalizes-track", len(callers), 1)
    ctors = {f.root: f for f in F.fns.values() if "radix_engine::transaction::transaction_receipt::CommitResult" in f.structs
             or "radix_engine::transaction::transaction_receipt::TransactionResult::Commit" in f.vars}
    check_who_may(ctx, "who-constructs-CommitResult", ctors, {
        r"system_callback::System::create_commit_receipt$": "the commit path",
        r"^<radix_engine::transaction::transaction_receipt::(CommitResult|TransactionResult) as (core::clone::Clone|sbor::)": "derived clone/decode",
        r"transaction_receipt::(CommitResult::empty_with_outcome|TransactionReceipt::empty_with_commit|TransactionReceipt::empty_commit_success)": "test helpers constructing empty receipts (no state updates)",
        r"^radix_engine::transaction::transaction_receipt::": "receipt module helpers (versioned conversions)",
        r"^<radix_engine::transaction::transaction_receipt::": "receipt module trait impls",
    }, "constructor of a commit result")
    n = "<radix_engine::system::system_callback::System as radix_engine::kernel::kernel_callback_api::KernelTransactionExecutor>::create_receipt"
    if ctx.anchor(n):
        b = ctx.body(n)
        gs = b.enum_guards(r"transaction_executor::TransactionResultType$")
        ctx.floor("create_receipt|result-type-match", len(gs), 1)
        for bb, ed, ow, si in gs:
            commit = ed.get("Commit")
            cc = set(call_blocks(b, re.escape(SC) + r"::create_commit_receipt$"))
            for v in ("Reject", "Abort"):
                s = ed.get(v, ow)
                ok = s is not None and not (b.reach((s,)) & cc)
                ctx.ob(f"create_receipt|{v}-never-commits", ok, f"the {v} arm cannot reach create_commit_receipt", b.loc(bb))
            ctx.ob("create_receipt|no-catch-all", ow is None, "match on TransactionResultType lists every variant", b.loc(bb))
        for fn in ("create_rejection_receipt", "create_abort_receipt"):
            nn = SC + "::" + fn
            if ctx.anchor(nn):
                bb_ = ctx.body(nn)
                has_track = any("track::track::Track" in l[0] for l in bb_.locals[1:bb_.argc + 1])
                ctx.ob(f"{fn}|no-track-parameter", not has_track, f"{fn} parameter types: {[l[0][:60] for l in bb_.locals[1:bb_.argc+1]]}", bb_.loc())

    # ------------------------------------------------------------------ R9 commit only when the loan is repaid
    ctx.rule("T2 in determine_result_type: TransactionResultType::Commit is constructed only when repay_all() succeeded or fully_repaid() is true")
    n = SC + "::determine_result_type"
    if ctx.anchor(n):
        b = ctx.body(n)
        commits = agg_blocks(b, r"transaction_executor::TransactionResultType$", "Commit")
        g = G_any([G_enum(r"core::result::Result$", ["Ok"], lambda a: a.kind == "call" and a.what.endswith("SystemLoanFeeReserve::repay_all")),
                   G_bool_call(r"SystemLoanFeeReserve::fully_repaid$", True)], "repay_all() is Ok OR fully_repaid()")
        check_guarded(ctx, "determine_result_type|commit-only-if-repaid", b, commits, [g], "construction of TransactionResultType::Commit", min_targets=2)
    ctx.assume("numerical content of the fee writes and ledger invariants after the fee-only commit are not decided here (C04/C05/C06)")
