"""C09 Resources cannot vanish or be duplicated inside a transaction — dropped bucket contents are consumed, orphan checks dominate success."""
import re
from lib import *
from resmod import *

K = "radix_engine::kernel::kernel::Kernel"


def run(ctx):
    F = ctx.F
    ctx.rule("T4: bucket nodes are dropped only through bucket_common::drop_{fungible,non_fungible}_bucket, whose callers are bucket put, "
             "vault put, burn_internal and drop_empty_bucket; in each caller the dropped bucket's liquid content is consumed "
             "(put into the receiver, burnt with supply decrement, or tested for emptiness)")
    callers = who_calls(F, r"bucket_common::drop_(non_)?fungible_bucket$")
    check_who_may(ctx, "who-drops-buckets", callers, {
        r"::(FungibleBucketBlueprint|NonFungibleBucketBlueprint)::put$": "merge into another bucket",
        r"::(FungibleVaultBlueprint|NonFungibleVaultBlueprint)::put$": "deposit into a vault",
        r"ResourceManagerBlueprint::burn_internal$": "burn (supply decrement + event, C03)",
        r"ResourceManagerBlueprint::drop_empty_bucket$": "drop of an empty bucket (emptiness tested)",
    }, "caller of drop_*_bucket")
    ctx.floor("who-drops-buckets", len(callers), 8)
    for root in sorted(callers):
        b = ctx.body(root)
        short = root.split("::")[-2] + "::" + root.split("::")[-1]
        dropped = [bb for bb, _ in b.calls(r"bucket_common::drop_(non_)?fungible_bucket$")]
        # consumer: a call (other than the drop) one of whose arguments depends on the drop result
        consumers = []
        for bb, t in b.calls(None):
            if bb in dropped:
                continue
            if any(any("drop_fungible_bucket" in x or "drop_non_fungible_bucket" in x for x in origin_names(b, a, deep=True)) for a in t["args"]):
                consumers.append(t["f"])
        want = r"::(internal_put|put|checked_sub|update_total_supply|is_zero|is_empty|emit_event|amount|ids|into_ids|neg)$"
        ok = any(re.search(want, c) for c in consumers)
        ctx.ob(f"dropped-content-consumed|{short}", ok, f"consumers of the dropped bucket's content: {sorted(set(c.split('::')[-1] for c in consumers))[:8]}", b.loc())
    # bucket nodes are not dropped by anyone else: drop_object on a bucket only inside bucket_common
    for n in ("drop_fungible_bucket", "drop_non_fungible_bucket"):
        nn = R + "bucket_common::" + n
        if ctx.anchor(nn):
            b = ctx.body(nn)
            ctx.ob(f"{n}|returns-content", bool(b.calls(r"::drop_object$")) and any(k in ("Ok",) for _, k in b.ret_assignments()), "drops the node and returns its substates", b.loc())

    ctx.rule("T2: drop_empty_bucket returns Ok only on the is_zero()/is_empty() arm; WorktopBlueprint::drop drops the worktop only after "
             "drop_empty on every contained bucket")
    for rm, test in ((FRM, r"::is_zero$|::is_empty$"), (NRM, r"::is_zero$|::is_empty$")):
        n = rm + "::drop_empty_bucket"
        if ctx.anchor(n):
            b = ctx.body(n)
            check_guarded(ctx, f"{rm.rsplit('::',1)[1]}::drop_empty_bucket|ok-only-if-empty", b, b.ok_exits(), [G_bool_call(test, True)], "Ok(())")
            live = any("DropNonEmptyBucket" in v for v in b.fn.vars)
            ctx.ob(f"{rm.rsplit('::',1)[1]}::drop_empty_bucket|DropNonEmptyBucket-live", live, "DropNonEmptyBucket is constructed", b.loc())
    n = R + "worktop::WorktopBlueprint::drop"
    if ctx.anchor(n):
        b = ctx.body(n)
        de = b.calls(r"Bucket.*::drop_empty$|::drop_empty$")
        do = call_blocks(b, r"::drop_object$")
        ctx.ob("worktop-drop|drop_empty-in-loop", len(de) >= 1 and len(do) == 1, f"{len(de)} drop_empty site(s), {len(do)} drop_object site(s)", b.loc())
        if de and do:
            # failing drop_empty cannot reach drop_object
            tg = b.try_guards(r"::drop_empty$")
            ok = bool(tg) and all(not (b.reach(tuple(fs)) & set(do)) for _, ps, fs, _ in tg)
            ctx.ob("worktop-drop|failed-drop_empty-is-doomed", ok, "a failing drop_empty cannot reach drop_object(worktop)", b.loc(de[0][0]))
            # the buckets iterated are the ones taken out of the worktop substate
            for bb, t in de:
                names = origin_names(b, t["args"][0], deep=True)
                ctx.ob("worktop-drop|buckets-from-worktop-state", any("mem::replace" in x or "kernel_read_substate" in x for x in names),
                       f"dropped buckets originate from the worktop substate ({[x for x in sorted(names) if 'call:' in x][:4]})", b.loc(bb))

    ctx.rule("T2: Kernel::invoke returns Ok only past the `owned_nodes.is_empty()` test placed after auto_drop (OrphanedNodes otherwise); "
             "System::auto_drop drops only the two proof blueprints")
    inv = [x for x in F.fns if re.search(r"kernel::kernel::Kernel as .*KernelInvokeApi.*>::kernel_invoke$|kernel::kernel::Kernel::invoke$", x)]
    found = False
    for root in inv:
        for b in ctx.bodies_of(root):
            if any(v.endswith("KernelError::OrphanedNodes") for v in b.fn.vars):
                found = True
                ad = call_blocks(b, r"::auto_drop$")
                g = G_bool_call(r"Vec(<.*>)?::is_empty$|::is_empty$", True)
                # restrict to the is_empty guard that follows auto_drop
                e, bl = pass_edges(b, g)
                after = set().union(*[b.reach(tuple(b.succs(x))) for x in ad]) if ad else set()
                e2 = [(x, y) for x, y in e if x in after]
                oks = b.ok_exits()
                ok = bool(ad) and bool(e2) and b.unreachable_without(oks, e2 )[0] if oks else False
                orph = agg_blocks(b, r"errors::KernelError$", "OrphanedNodes")
                ctx.ob("kernel-invoke|orphan-check-after-auto_drop", bool(ad) and bool(e2) and all(doomed(b, s) for s in orph),
                       f"auto_drop at bb{ad}, emptiness test after it at bb{[x for x, _ in e2]}, OrphanedNodes sites doomed", b.loc(orph[0]) if orph else b.loc())
    ctx.ob("kernel-invoke|anchor", found, f"Kernel invoke body constructing OrphanedNodes found among {inv}")
    ad = [x for x in F.fns if x.endswith("KernelCallbackObject>::auto_drop") and "system_callback::System" in x]
    if len(ad) == 1:
        cs = sorted({c.rsplit("::", 1)[-1] for x in ctx.bodies_of(ad[0]) for c in x.fn.consts if c.endswith("_BLUEPRINT")})
        ctx.ob("auto_drop|only-proofs", cs == ["FUNGIBLE_PROOF_BLUEPRINT", "NON_FUNGIBLE_PROOF_BLUEPRINT"], f"blueprints auto-dropped: {cs}", F.fns[ad[0]].loc())
    else:
        ctx.ob("anchor|auto_drop", False, f"candidates: {ad}")
    import c10
    c10.check_lock_unlock_delta(ctx)
    ctx.assume("'take never yields more than put' and worktop assertion semantics are value-level and not decided")
