"""C10 Funds behind a live proof cannot be withdrawn — who-may-write locked/liquid state, lock/unlock pairing, divisibility guards."""
import re
from lib import *
from resmod import *
from c15 import arm_regions


def run(ctx):
    F = ctx.F
    ctx.rule("T4: locked-balance substates (vault and bucket, fungible and non-fungible) are written only by lock_*/unlock_*; liquid "
             "substates only by internal_take*/internal_put (+ lock_fee); so no withdraw/burn/recall path can touch locked value")
    n = check_owner_table(ctx, "owner", r"Locked|Balance|Liquid")
    ctx.floor("owner-table-sites", n, 20)
    # take/recall/burn paths reach value only through internal_take*
    for bp, fns in ((FV, ["take_advanced", "recall", "burn", "take"]), (NV, ["take_advanced", "take_non_fungibles", "recall", "recall_non_fungibles", "burn_non_fungibles", "take"])):
        for fn in fns:
            name = f"{bp}::{fn}"
            if name not in F.fns:
                continue
            bodies = ctx.bodies_of(name)
            direct = [c[0] for x in bodies for c in x.fn.calls if re.search(r"::(field_write_typed|field_read_typed|actor_open_field)$", c[0])]
            opens_locked = any("LockedBalance" in v or "LockedResource" in v or "LockedNonFungible" in v for x in bodies for v in x.fn.vars)
            ctx.ob(f"withdraw-path|{bp.rsplit('::',1)[1]}::{fn}|no-locked-access", not opens_locked,
                   f"{fn} mentions a Locked* field: {opens_locked} (direct state calls: {sorted(set(d.split('::')[-1] for d in direct))})", F.fns[name].loc())

    ctx.rule("T8: proof clone locks with the LOCK ident and proof teardown unlocks with the mirrored UNLOCK ident, per LocalRef variant; "
             "on_drop reaches teardown")
    PAIRS = {
        "fungible::fungible_proof::FungibleProofSubstate": {"Bucket": ("FUNGIBLE_BUCKET_LOCK_AMOUNT_IDENT", "FUNGIBLE_BUCKET_UNLOCK_AMOUNT_IDENT"),
                                                            "Vault": ("FUNGIBLE_VAULT_LOCK_FUNGIBLE_AMOUNT_IDENT", "FUNGIBLE_VAULT_UNLOCK_FUNGIBLE_AMOUNT_IDENT")},
        "non_fungible::non_fungible_proof::NonFungibleProofSubstate": {"Bucket": ("NON_FUNGIBLE_BUCKET_LOCK_NON_FUNGIBLES_IDENT", "NON_FUNGIBLE_BUCKET_UNLOCK_NON_FUNGIBLES_IDENT"),
                                                                       "Vault": ("NON_FUNGIBLE_VAULT_LOCK_NON_FUNGIBLES_IDENT", "NON_FUNGIBLE_VAULT_UNLOCK_NON_FUNGIBLES_IDENT")},
    }
    for ty, table in PAIRS.items():
        for fn, col in (("clone_proof", 0), ("teardown", 1)):
            name = R + ty + "::" + fn
            if not ctx.anchor(name):
                continue
            b = ctx.body(name)
            gs = b.enum_guards(r"proof_common::LocalRef$")
            ctx.ob(f"{ty.split('::')[-1]}::{fn}|match-on-LocalRef", len(gs) >= 1 and all(ow is None for _, _, ow, _ in gs), f"{len(gs)} exhaustive match(es) on LocalRef", b.loc())
            for bb, ed, ow, si in gs:
                ex = arm_regions(b, bb, ed)
                for var, idents in table.items():
                    cs = {c.rsplit("::", 1)[1] for c in consts_in_blocks(b, ex.get(var, ()))}
                    want = idents[col]
                    other = {i for v2, ids in table.items() for i in ids} - {want}
                    ctx.ob(f"{ty.split('::')[-1]}::{fn}|{var}-ident", want in cs and not (cs & other),
                           f"{var} arm uses {sorted(c for c in cs if c.endswith('_IDENT'))}, expected {want}", b.loc(bb))
            ctx.ob(f"{ty.split('::')[-1]}::{fn}|calls-method", bool(b.calls(r"::call_method$")), f"{fn} invokes the container", b.loc())
        bp = R + ty.replace("Substate", "Blueprint") + "::on_drop"
        if ctx.anchor(bp):
            b = ctx.body(bp)
            check_guarded(ctx, f"{ty.split('::')[-1]}|on_drop-teardown", b, b.ok_exits(), [G_try(re.escape(R + ty) + r"::teardown$")], "Ok(()) of on_drop")

    ctx.rule("T2: lock_amount moves the shortfall out of the liquid balance (internal_take) and unlock_amount returns the released delta "
             "(internal_put of LiquidFungibleResource::new(delta)); divisibility is checked before locking/taking")
    for bp in (FV, FB):
        n1 = bp + "::lock_amount"
        if ctx.anchor(n1):
            b = ctx.body(n1)
            ctx.ob(f"{bp.rsplit('::',1)[1]}::lock_amount|takes-from-liquid", bool(b.calls(re.escape(bp) + r"::internal_take$")), "lock_amount calls internal_take for the shortfall", b.loc())
        n2 = bp + "::unlock_amount"
        if ctx.anchor(n2):
            b = ctx.body(n2)
            puts = b.calls(re.escape(bp) + r"::internal_put$")
            ok = bool(puts) and all(any(x.endswith("LiquidFungibleResource::new") for x in origin_names(b, t["args"][0])) and
                                    any("checked_sub" in x for x in origin_names(b, t["args"][0], deep=True)) for _, t in puts)
            ctx.ob(f"{bp.rsplit('::',1)[1]}::unlock_amount|returns-delta-to-liquid", ok, "unlock_amount ends in internal_put(LiquidFungibleResource::new(max_locked - locked))", b.loc())
    DIV = G_bool_call(r"resource::.*check_fungible_amount$|::check_fungible_amount$", True)
    for name, target in ((FV + "::create_proof_of_amount", re.escape(FV) + r"::lock_amount$"), (FV + "::take_advanced", re.escape(FV) + r"::internal_take$"),
                         (FB + "::create_proof_of_amount", re.escape(FB) + r"::lock_amount$"), (FB + "::take_advanced", re.escape(FB) + r"::internal_take$")):
        if name in F.fns:
            b = ctx.body(name)
            check_guarded(ctx, f"divisibility|{name.split('::')[-2]}::{name.split('::')[-1]}", b, call_blocks(b, target), [DIV], target.split("::")[-1].rstrip("$"))
    ctx.assume("max-of-locks arithmetic and its restoration are value-level and not decided")
