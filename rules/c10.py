"""C10 Funds behind a live proof cannot be withdrawn — who-may-write locked/liquid state, lock/unlock pairing, divisibility guards."""
import re
from lib import *
from resmod import *
from c15 import arm_regions


def check_lock_unlock_delta(ctx):
    """lock moves exactly the shortfall out of the liquid part, unlock returns exactly the released delta (shared with C09: a wrong delta
    creates or destroys tokens inside a transaction)"""
    F = ctx.F
    ctx.rule("T2: lock_amount moves the shortfall out of the liquid balance (internal_take) and unlock_amount returns the released delta "
             "(internal_put of LiquidFungibleResource::new(delta)); divisibility is checked before locking/taking")
    for bp in (FV, FB):
        n1 = bp + "::lock_amount"
        if ctx.anchor(n1):
            b = ctx.body(n1)
            ctx.ob(f"{bp.rsplit('::',1)[1]}::lock_amount|takes-from-liquid", bool(b.calls(re.escape(bp) + r"::internal_take$")), "lock_amount calls internal_take for the shortfall", b.loc())
            # every registration of a lock passes the comparison of the requested amount with the currently locked maximum, and on the
            # `amount > max` edge the shortfall (amount - max) is taken from the liquid balance before the lock is counted
            reg = call_blocks(b, r"indexmap::map::IndexMap(<[^>]*>)?::entry$|IndexMap(<[^>]*>)?::insert$")
            short = bp.rsplit("::", 1)[-1]
            cmpg = []
            for bb, tru, fal, si in b.call_bool_guards(r"PartialOrd(<[^>]*>)?(>)?::(gt|lt|ge|le)$"):
                c = [a for a in si["atoms"] if a.kind == "call" and re.search(r"::(gt|lt|ge|le)$", a.what)]
                t = b.term(c[0].bb) if c else None
                if not t:
                    continue
                o0, o1 = origin_names(b, t["args"][0]), origin_names(b, t["args"][1])
                is_max = lambda o: any(x.endswith("LockedFungibleResource::amount") for x in o)
                op = c[0].what.rsplit("::", 1)[-1]
                # `amount > max` / `max < amount` (or the non-strict forms): the edge on which the request exceeds the locked maximum
                if o0 == {"param:1"} and is_max(o1) and op in ("gt", "ge"):
                    cmpg.append((bb, tru, fal))
                elif is_max(o0) and o1 == {"param:1"} and op in ("lt", "le"):
                    cmpg.append((bb, tru, fal))
                elif o0 == {"param:1"} and is_max(o1) and op in ("lt", "le"):
                    cmpg.append((bb, fal, tru))
                elif is_max(o0) and o1 == {"param:1"} and op in ("gt", "ge"):
                    cmpg.append((bb, fal, tru))
            ok = len(cmpg) == 1 and bool(reg)
            ctx.ob(f"{short}::lock_amount|compares-with-locked-max", ok, f"{len(cmpg)} test(s) `amount > locked.amount()`, {len(reg)} lock registration site(s)", b.loc())
            if ok:
                bb, tru, fal = cmpg[0]
                good, wit = b.unreachable_without(reg, [(bb, tru), (bb, fal)])
                ctx.ob(f"{short}::lock_amount|every-lock-passes-the-max-comparison", good,
                       "a lock is registered only after the requested amount was compared with the locked maximum" if good else
                       f"a lock can be registered WITHOUT comparing the amount with the locked maximum: {b.fmt_path(wit)} — a larger overlapping proof would not raise the lock",
                       b.loc(wit[-1]) if wit else b.loc(bb))
                tk = b.try_guards(re.escape(bp) + r"::internal_take$")
                pe = [(sb, p) for sb, ps, fs, cbb in tk for p in ps]
                region = b.reach((tru,), blocked_edges=pe)
                ctx.ob(f"{short}::lock_amount|shortfall-taken-before-registration", bool(pe) and not (region & set(reg)),
                       "on the `amount > max` edge the registration is reachable only after internal_take(..)? succeeded", b.loc(tru))
                for cb, t in b.calls(re.escape(bp) + r"::internal_take$"):
                    dn = origin_names(b, t["args"][0])
                    ok2 = any(x.endswith("::checked_sub") for x in dn)
                    if ok2:
                        cs = [a for a in b.origins(t["args"][0]) if a.kind == "call" and a.what.endswith("::checked_sub")]
                        tt = b.term(cs[0].bb)
                        ok2 = origin_names(b, tt["args"][0]) == {"param:1"} and any(x.endswith("LockedFungibleResource::amount") for x in origin_names(b, tt["args"][1]))
                    ctx.ob(f"{short}::lock_amount|shortfall-is-amount-minus-max", ok2, f"internal_take operand originates from {sorted(x.split('::')[-1] for x in dn)}", b.loc(cb))
        n2 = bp + "::unlock_amount"
        if ctx.anchor(n2):
            b = ctx.body(n2)
            puts = b.calls(re.escape(bp) + r"::internal_put$")
            ok = bool(puts) and all(any(x.endswith("LiquidFungibleResource::new") for x in origin_names(b, t["args"][0])) and
                                    any("checked_sub" in x for x in origin_names(b, t["args"][0], deep=True)) for _, t in puts)
            ctx.ob(f"{bp.rsplit('::',1)[1]}::unlock_amount|returns-delta-to-liquid", ok, "unlock_amount ends in internal_put(LiquidFungibleResource::new(max_locked - locked))", b.loc())


def check_amount_validity(ctx):
    """every lock / take of a caller-chosen amount is behind check_fungible_amount(amount, divisibility) == true, the only place a negative or
    over-precise amount is rejected (shared with C04: a negative take leaves a negative vault balance)"""
    F = ctx.F
    DIV = G_bool_call(r"resource::.*check_fungible_amount$|::check_fungible_amount$", True)
    for name, target in ((FV + "::create_proof_of_amount", re.escape(FV) + r"::lock_amount$"), (FV + "::take_advanced", re.escape(FV) + r"::internal_take$"),
                         (FB + "::create_proof_of_amount", re.escape(FB) + r"::lock_amount$"), (FB + "::take_advanced", re.escape(FB) + r"::internal_take$")):
        if name in F.fns:
            b = ctx.body(name)
            check_guarded(ctx, f"divisibility|{name.split('::')[-2]}::{name.split('::')[-1]}", b, call_blocks(b, target), [DIV], target.split("::")[-1].rstrip("$"))


def run(ctx):
    F = ctx.F
    ctx.rule("T4: locked-balance substates (vault and bucket, fungible and non-fungible) are written only by lock_*/unlock_*; liquid "
             "substates only by internal_take*/internal_put (+ lock_fee); so no withdraw/burn/recall path can touch locked value")
    n = check_owner_table(ctx, "owner", r"Locked|Balance|Liquid")
    ctx.floor("owner-table-sites", n, 20)
    # take/recall/burn paths reach value only through internal_take*
    for bp, fns in ((FV, ["take_advanced", "recall", "burn", "take"]), (NV, ["take_advanced", "take_non_fungibles", "recall", "recall_non_fungibles", "burn_non_fungibles", "take"])):
        for fn in fns:
            name = f"{bp}::{fn}"
            if name not in F.fns:
                continue
            bodies = ctx.bodies_of(name)
            direct = [c[0] for x in bodies for c in x.fn.calls if re.search(r"::(field_write_typed|field_read_typed|actor_open_field)$", c[0])]
            opens_locked = any("LockedBalance" in v or "LockedResource" in v or "LockedNonFungible" in v for x in bodies for v in x.fn.vars)
            ctx.ob(f"withdraw-path|{bp.rsplit('::',1)[1]}::{fn}|no-locked-access", not opens_locked,
                   f"{fn} mentions a Locked* field: {opens_locked} (direct state calls: {sorted(set(d.split('::')[-1] for d in direct))})", F.fns[name].loc())

    ctx.rule("T8: proof clone locks with the LOCK ident and proof teardown unlocks with the mirrored UNLOCK ident, per LocalRef variant; "
             "on_drop reaches teardown")
    PAIRS = {
        "fungible::fungible_proof::FungibleProofSubstate": {"Bucket": ("FUNGIBLE_BUCKET_LOCK_AMOUNT_IDENT", "FUNGIBLE_BUCKET_UNLOCK_AMOUNT_IDENT"),
                                                            "Vault": ("FUNGIBLE_VAULT_LOCK_FUNGIBLE_AMOUNT_IDENT", "FUNGIBLE_VAULT_UNLOCK_FUNGIBLE_AMOUNT_IDENT")},
        "non_fungible::non_fungible_proof::NonFungibleProofSubstate": {"Bucket": ("NON_FUNGIBLE_BUCKET_LOCK_NON_FUNGIBLES_IDENT", "NON_FUNGIBLE_BUCKET_UNLOCK_NON_FUNGIBLES_IDENT"),
                                                                       "Vault": ("NON_FUNGIBLE_VAULT_LOCK_NON_FUNGIBLES_IDENT", "NON_FUNGIBLE_VAULT_UNLOCK_NON_FUNGIBLES_IDENT")},
    }
    for ty, table in PAIRS.items():
        for fn, col in (("clone_proof", 0), ("teardown", 1)):
            name = R + ty + "::" + fn
            if not ctx.anchor(name):
                continue
            b = ctx.body(name)
            gs = b.enum_guards(r"proof_common::LocalRef$")
            ctx.ob(f"{ty.split('::')[-1]}::{fn}|match-on-LocalRef", len(gs) >= 1 and all(ow is None for _, _, ow, _ in gs), f"{len(gs)} exhaustive match(es) on LocalRef", b.loc())
            for bb, ed, ow, si in gs:
                ex = arm_regions(b, bb, ed)
                for var, idents in table.items():
                    cs = {c.rsplit("::", 1)[-1] for c in consts_in_blocks(b, ex.get(var, ()))}
                    want = idents[col]
                    other = {i for v2, ids in table.items() for i in ids} - {want}
                    ctx.ob(f"{ty.split('::')[-1]}::{fn}|{var}-ident", want in cs and not (cs & other),
                           f"{var} arm uses {sorted(c for c in cs if c.endswith('_IDENT'))}, expected {want}", b.loc(bb))
            ctx.ob(f"{ty.split('::')[-1]}::{fn}|calls-method", bool(b.calls(r"::call_method$")), f"{fn} invokes the container", b.loc())
        bp = R + ty.replace("Substate", "Blueprint") + "::on_drop"
        if ctx.anchor(bp):
            b = ctx.body(bp)
            check_guarded(ctx, f"{ty.split('::')[-1]}|on_drop-teardown", b, b.ok_exits(), [G_try(re.escape(R + ty) + r"::teardown$")], "Ok(()) of on_drop")

    check_lock_unlock_delta(ctx)
    check_amount_validity(ctx)
    ctx.assume("max-of-locks arithmetic and its restoration are value-level and not decided")
