"""C34 Transaction validation enforces exactly the configured limits — liveness clause (T7)."""
import re
from lib import *

CFG = "radix_transactions::validation::transaction_validation_configuration::"
ERR = "radix_transactions::errors::"
SCOPE = r"^(<)?radix_transactions::(validation|model|manifest)::"
LIMITS = ["max_signer_signatures_per_intent", "max_references_per_intent", "min_tip_percentage", "max_tip_percentage", "max_epoch_range",
          "max_instructions", "min_tip_basis_points", "max_tip_basis_points", "max_subintent_depth", "max_total_signature_validations",
          "max_total_references", "v2_transactions_allowed"]
MSG_LIMITS = ["max_plaintext_message_length", "max_mime_type_length", "max_encrypted_message_length", "max_decryptors"]


def run(ctx):
    F = ctx.F
    ctx.rule("T7: every numeric/boolean limit of TransactionValidationConfigV1 and MessageValidationConfig is read by a validator function in "
             "which a branch depending on it has a rejecting (doomed) arm")
    for f in LIMITS:
        check_limit_enforced(ctx, "config-limit", CFG + "TransactionValidationConfigV1", f, SCOPE)
    for f in MSG_LIMITS:
        check_limit_enforced(ctx, "message-limit", CFG + "MessageValidationConfig", f, SCOPE)
    # the remaining fields are consumed, not compared
    for f, acc in (("manifest_validation", None), ("message_validation", None), ("preparation_settings", None),
                   ("v1_transactions_allow_notary_to_duplicate_signer", None)):
        rs = [n for n in field_readers(F, CFG + "TransactionValidationConfigV1", f, SCOPE) if CFG + "TransactionValidationConfigV1" not in F.fns[n].structs]
        ctx.ob(f"config-field-used|{f}", bool(rs), f"{f} is read by {rs[:3]}")
    known = set(LIMITS) | {"manifest_validation", "message_validation", "preparation_settings", "v1_transactions_allow_notary_to_duplicate_signer"}
    fields = set(struct_fields(ctx, CFG + "TransactionValidationConfigV1"))
    ctx.ob("config-fields|all-classified", bool(fields) and fields <= known,
           f"fields of TransactionValidationConfigV1 not covered by a rule: {sorted(fields - known)} (a new limit needs an enforcement rule)")
    mfields = set(struct_fields(ctx, CFG + "MessageValidationConfig"))
    ctx.ob("message-config-fields|all-classified", bool(mfields) and mfields <= set(MSG_LIMITS), f"unclassified MessageValidationConfig fields: {sorted(mfields - set(MSG_LIMITS))}")

    ctx.rule("T7: every variant of the validation rejection enums is constructed under a branch somewhere in radix-transactions")
    check_variants_live(ctx, "HeaderValidationError", ERR + "HeaderValidationError", SCOPE)
    check_variants_live(ctx, "SignatureValidationError", ERR + "SignatureValidationError", r"^(<)?radix_transactions::")
    check_variants_live(ctx, "InvalidMessageError", ERR + "InvalidMessageError", SCOPE)
    check_variants_live(ctx, "IntentValidationError", ERR + "IntentValidationError", r"^(<)?radix_transactions::", conditional=False)
    check_variants_live(ctx, "TransactionValidationError", ERR + "TransactionValidationError", r"^(<)?radix_transactions::", conditional=False,
                        dead_ok={"TransactionTooLarge": "size limits are enforced at preparation (PrepareError::TransactionTooLarge); variant kept for API compatibility"})
    check_variants_live(ctx, "ManifestIdValidationError", ERR + "ManifestIdValidationError", r"^(<)?radix_transactions::",
                        dead_ok={"IntentNotFound": "never produced on the pinned tree (intent lookups are validated by the structure validator)"})

    ctx.rule("T2: AcrossIntentAggregation::finalize returns Ok only past the total-references and the epoch/timestamp intersection tests")
    fin = [n for n in F.fns if n.endswith("AcrossIntentAggregation::finalize")]
    if len(fin) == 1:
        b = ctx.body(fin[0])
        gs = field_guards(b, "max_total_references")
        ok = bool(gs) and all(any(doomed(b, s) for s in b.succs(g)) for g in gs)
        ctx.ob("finalize|total-references", ok, f"max_total_references guard(s) at bb{gs}", b.loc())
        okx = b.ok_exits()
        for v in ("NoValidEpochRangeAcrossAllIntents", "NoValidTimestampRangeAcrossAllIntents"):
            upd = [n for n in F.fns if n.endswith("AcrossIntentAggregation::update_headers")]
            live = any(any(x.endswith("HeaderValidationError::" + v) for x in F.fns[u].vars) for u in upd)
            ctx.ob(f"update_headers|{v}", live, f"{v} is produced by update_headers")
    else:
        ctx.ob("anchor|AcrossIntentAggregation::finalize", False, f"candidates: {fin}")
    ctx.rule("write-then-check (T3): in AcrossIntentAggregation::update_headers every update of an overall epoch / timestamp bound is followed, on "
             "every path to Ok, by the emptiness test of that window (a comparison depending on both bounds with a rejecting arm), unless one of "
             "the two bounds is still absent (None arm)")
    uh = [n for n in F.fns if n.endswith("AcrossIntentAggregation::update_headers")]
    if len(uh) == 1:
        b = ctx.body(uh[0])
        oks = set(b.ok_exits())
        for lo, hi, what in (("overall_start_epoch_inclusive", "overall_end_epoch_exclusive", "epoch"),
                             ("overall_start_timestamp_inclusive", "overall_end_timestamp_exclusive", "timestamp")):
            writes = [i for i in range(b.n) for st in b.stmts(i) if st["k"] == "=" and st["p"][-1] in ("." + lo, "." + hi)]
            cmp_edges, cmp_blocks, none_edges = [], [], []
            for sb in b.switches():
                si = b.switch_info(sb)
                ats = b.origins(b.term(sb)["o"], deep=True)
                dep_lo = any("." + lo in a.proj for a in ats)
                dep_hi = any("." + hi in a.proj for a in ats)
                if si["kind"] == "bool" and dep_lo and dep_hi:
                    succs = b.succs(sb)
                    d = [x for x in succs if doomed(b, x)]
                    if d and len(d) < len(succs):
                        cmp_blocks.append(sb)
                        cmp_edges += [(sb, x) for x in succs if x not in d]
                if si["kind"] == "enum" and si["enum"] == "core::option::Option" and \
                        any(("." + lo in a.proj or "." + hi in a.proj) for a in si["atoms"] + b.origins(si["place"], deep=True)):
                    if "None" in si["edges"]:
                        none_edges.append((sb, si["edges"]["None"]))
                    elif si["otherwise"] is not None:
                        none_edges.append((sb, si["otherwise"]))
            ok = bool(writes) and bool(cmp_blocks)
            wit = None
            for w in sorted(set(writes)):
                r = b.reach(tuple(b.succs(w)), blocked_edges=cmp_edges + none_edges)
                if r & oks:
                    ok = False
                    wit = w
            ctx.ob(f"update_headers|{what}-window-checked-after-every-update", ok,
                   f"{len(set(writes))} update site(s) of the overall {what} bounds; emptiness test at bb{cmp_blocks}" +
                   ("" if ok else f"; the update at line {b.line(wit) if wit is not None else '?'} can reach Ok without the emptiness test"), b.loc(cmp_blocks[0]) if cmp_blocks else b.loc())
    else:
        ctx.ob("anchor|update_headers", False, f"candidates: {uh}")
    ctx.assume("that each boundary is exact (< vs <=) and the window intersection arithmetic are value-level and not decided")
