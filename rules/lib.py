"""Rule templates shared by the per-property rule files (T1..T9 of DESIGN.md)."""
import re

import mir


# --------------------------------------------------------------------------- guard specs (T2)
def G_bool_call(pattern, passes_when):
    """guard = a branch on the bool result of a call matching `pattern`; the protected code lies
    on the edge taken when the result == passes_when"""
    return ("bool_call", pattern, passes_when)


def G_try(pattern):
    """guard = `callee(..)?` or a match on its Result/Option; protected code on Ok/Some/Continue"""
    return ("try", pattern)


def G_enum(enum_pattern, pass_variants, origin=None):
    """guard = match on an enum; protected code only on the edges of pass_variants"""
    return ("enum", enum_pattern, tuple(pass_variants), origin)


def G_custom(fn, label):
    return ("custom", fn, label)


def guard_label(g):
    if g[0] == "bool_call":
        return f"{g[1]} == {g[2]}"
    if g[0] == "try":
        return f"{g[1]} succeeded"
    if g[0] == "enum":
        return f"{g[1]} in {{{','.join(g[2])}}}"
    return g[2]


def pass_edges(body, g):
    """-> (pass_edges [(bb,succ)], guard_blocks [bb])"""
    edges, blocks = [], []
    if g[0] == "bool_call":
        for bb, tru, fal, si in body.call_bool_guards(g[1]):
            succ = tru if g[2] else fal
            if succ is not None:
                edges.append((bb, succ))
                blocks.append(bb)
    elif g[0] == "try":
        for bb, ps, fs, cbb in body.try_guards(g[1]):
            for p in ps:
                edges.append((bb, p))
            blocks.append(bb)
    elif g[0] == "enum":
        opred = g[3]
        for bb, ed, ow, si in body.enum_guards(g[1], opred):
            listed = set(ed)
            for v, succ in ed.items():
                if v in g[2]:
                    edges.append((bb, succ))
            if ow is not None and any(v not in listed for v in g[2]):
                edges.append((bb, ow))
            blocks.append(bb)
    elif g[0] == "custom":
        e, b = g[1](body)
        edges += e
        blocks += b
    return edges, blocks


def check_guarded(ctx, key, body, targets, guards, what, start=0, min_targets=1):
    """T2: every path from `start` to each target block passes the pass-edge of *each* guard in `guards`
    (conjunction: every guard is individually necessary)."""
    if body is None:
        return ctx.ob(key, False, f"{what}: function body not found")
    if len(targets) < min_targets:
        return ctx.ob(key, False, f"{what}: expected >= {min_targets} target site(s) in {body.name}, found {len(targets)}",
                      body.loc())
    allok = True
    for g in guards:
        edges, blocks = pass_edges(body, g)
        gl = guard_label(g)
        via = []
        if g[0] in ("bool_call", "enum") and (not blocks or not body.unreachable_without(targets, edges, start)[0]):
            # the test may have been extracted into a helper: `Self::ensure_x(..)?` counts when, inside the helper, Ok is reachable only
            # through the same guard (one level, functions of the analysed crates only)
            he, hv = helper_pass_edges(ctx, body, g)
            if he:
                edges, blocks, via = edges + he, blocks + [x for x, _ in he], hv
        if not blocks:
            ctx.ob(f"{key}|guard:{gl}", False, f"{what}: no guard `{gl}` found in {body.name}", body.loc())
            allok = False
            continue
        ok, wit = body.unreachable_without(targets, edges, start)
        detail = f"{what}: guard `{gl}` at bb{blocks}" + (f" (through helper {via})" if via else "") + " " + (
            "dominates all target sites" if ok else f"is BYPASSED: path {body.fmt_path(wit)} reaches the target without passing it")
        ctx.ob(f"{key}|guard:{gl}", ok, detail, body.loc(wit[-1]) if wit else body.loc(blocks[0]))
        if ok:
            ctx.sample({"fn": body.name, "rule": "T2 must-pass-through", "target_blocks": list(targets)[:6],
                        "guard": gl, "guard_blocks": blocks[:6]})
        allok = allok and ok
    return allok


def helper_pass_edges(ctx, body, g):
    """success edges of `helper(..)?` sites whose helper returns Ok only through guard g -> ([(switch_bb, succ)], [helper names])"""
    F = body.F
    edges, names = [], []
    for sb, ps, fs, cbb in body.try_guards(r"^(?!.*(Try>?::branch|FromResidual.*::from_residual)$).+$"):
        callee = body.term(cbb)["f"]
        if callee not in F.fns or callee == body.name or F.fns[callee].kind == "Closure":
            continue
        try:
            hb = ctx.body(callee)
        except Exception:
            continue
        e, bl = pass_edges(hb, g)
        oks = hb.ok_exits()
        if bl and oks and hb.unreachable_without(oks, e)[0]:
            edges += [(sb, p) for p in ps]
            names.append(callee.rsplit("::", 1)[-1])
    return edges, names


def call_blocks(body, pattern):
    return [bb for bb, _ in body.calls(pattern)]


def agg_blocks(body, adt_pattern, variant=None):
    """blocks that construct ADT (variant)"""
    r = re.compile(adt_pattern)
    out = []
    for i in range(body.n):
        if body.blocks[i].get("cu"):
            continue
        for s in body.stmts(i):
            if s["k"] == "=" and s["rv"]["k"] == "agg" and s["rv"].get("adt") and r.search(s["rv"]["adt"]):
                if variant is None or s["rv"].get("var") == variant:
                    out.append(i)
            elif s["k"] == "setdisc" and variant is not None and s["v"] == variant:
                out.append(i)
    return sorted(set(out))


def the_body(ctx, root, containing=None, F=None):
    """body of `root` (or of the closure of root that contains a call matching `containing`)"""
    F = F or ctx.F
    bodies = ctx.bodies_of(root, F)
    if not bodies:
        return None
    if containing is None:
        for b in bodies:
            if b.name == root:
                return b
        return bodies[0]
    hits = [b for b in bodies if b.calls(containing)]
    return hits[0] if hits else None


# --------------------------------------------------------------------------- who-may (T4)
def module_of(F, fname):
    return F.fns[fname].mod


def who_calls(F, pattern, scope=None):
    """{caller root fn: [call records]} for calls whose resolved/declared callee matches pattern"""
    r = re.compile(pattern)
    out = {}
    for f in F.fns.values():
        if scope and not scope(f):
            continue
        for c in f.calls:
            if r.search(c[0]) or r.search(c[1]):
                out.setdefault(f.root, []).append((f, c))
    return out


def check_who_may(ctx, key, found, allowed, what, granularity="fn"):
    """found: {root fn: ...}; allowed: {regex on fn/module: reason}. Every found site must match an allowed entry."""
    ok_all = True
    regs = [(re.compile(p), why) for p, why in allowed.items()]
    for root in sorted(found):
        subject = root if granularity == "fn" else ctx.F.fns[root].mod if root in ctx.F.fns else root
        hit = next((why for r, why in regs if r.search(subject)), None)
        f = ctx.F.fns.get(root)
        ctx.ob(f"{key}|{subject}", hit is not None,
               f"{what}: {root} " + (f"allowed ({hit})" if hit else "is NOT in the audited who-may table"),
               f.loc() if f else "")
        ok_all = ok_all and hit is not None
    return ok_all


# --------------------------------------------------------------------------- match exhaustiveness (T5)
def check_no_live_otherwise(ctx, key, body, enum_pattern, what, min_matches=1):
    gs = body.enum_guards(enum_pattern)
    if len(gs) < min_matches:
        return ctx.ob(key, False, f"{what}: expected >= {min_matches} match(es) on {enum_pattern} in {body.name}, found {len(gs)}", body.loc())
    ok = True
    for bb, ed, ow, si in gs:
        full = set(ctx.F.enums.get(si["enum"], {}).values())
        missing = full - set(ed)
        good = ow is None or not missing
        ctx.ob(f"{key}|{si['enum']}", good,
               f"{what}: match on {si['enum']} at bb{bb} " + ("lists every variant" if good else f"has a catch-all arm covering {sorted(missing)}"),
               body.loc(bb))
        ok = ok and good
    return ok


# --------------------------------------------------------------------------- comparison guards
def G_cmp(origin_a, origin_b, label, equal=True, callee=None):
    """guard = branch on `x == y` / `x != y` (PartialEq::eq/ne calls or MIR Eq/Ne) where one operand originates
    from a call/param/const matching regex origin_a and the other from origin_b; protected code lies on the
    edge where the operands are equal (equal=True) or different (equal=False)."""
    ra, rb = re.compile(origin_a), re.compile(origin_b)
    rc = re.compile(callee) if callee else None

    def names(body, op):
        return [f"{a.kind}:{a.what}" for a in body.origins(op, deep=True)]

    def fn(body):
        edges, blocks = [], []
        for bb in body.switches():
            si = body.switch_info(bb)
            if not si or si["kind"] != "bool":
                continue
            for a in si["atoms"]:
                ops, is_eq = None, None
                if a.kind == "call" and re.search(r"::(eq|ne)$", a.what) and "PartialEq" in (a.what + a.extra["fd"]):
                    if rc is not None and not (rc.search(a.what) or rc.search(a.extra.get("ga", ""))):
                        continue   # comparison of the wrong (e.g. partial) type
                    ops = a.extra["args"][:2]
                    is_eq = a.what.endswith("::eq")
                elif a.kind == "bin" and a.what in ("Eq", "Ne"):
                    ops = [a.extra["a"], a.extra["b"]]
                    is_eq = a.what == "Eq"
                if not ops or len(ops) < 2:
                    continue
                n0, n1 = names(body, ops[0]), names(body, ops[1])
                m = (any(ra.search(x) for x in n0) and any(rb.search(x) for x in n1)) or \
                    (any(rb.search(x) for x in n0) and any(ra.search(x) for x in n1))
                if not m:
                    continue
                # truth value of the branch condition when operands are equal
                val_when_equal = is_eq
                want = val_when_equal if equal else (not val_when_equal)
                edges.append((bb, si["true"] if want else si["false"]))
                blocks.append(bb)
        return edges, blocks
    return ("custom", fn, label)


def G_not_less(a_pred, b_pred, label):
    """guard = any syntactic form of an ordering test between operand A (atoms satisfying a_pred) and operand B (b_pred) —
    `a < b`, `b > a`, `a >= b`, `b <= a`, as PartialOrd calls or MIR Lt/Gt/Le/Ge — protected code lies on the edge where `a < b` is FALSE
    (i.e. a >= b)."""
    def side(body, op):
        ats = body.origins(op)
        return ("a" if any(a_pred(x) for x in ats) else "") + ("b" if any(b_pred(x) for x in ats) else "")

    def fn(body):
        edges, blocks = [], []
        for bb in body.switches():
            si = body.switch_info(bb)
            if not si or si["kind"] != "bool":
                continue
            for at in si["atoms"]:
                if at.kind == "call" and re.search(r"::(lt|gt|le|ge)$", at.what) and "PartialOrd" in (at.what + at.extra["fd"]):
                    op, ops = at.what.rsplit("::", 1)[-1], at.extra["args"][:2]
                elif at.kind == "bin" and at.what in ("Lt", "Gt", "Le", "Ge"):
                    op, ops = at.what.lower(), [at.extra["a"], at.extra["b"]]
                else:
                    continue
                s0, s1 = side(body, ops[0]), side(body, ops[1])
                if s0 == "a" and s1 == "b":
                    first = "a"
                elif s0 == "b" and s1 == "a":
                    first = "b"
                else:
                    continue
                # value of the test when a >= b holds (for le/ge forms the a == b case decides which form is equivalent to `a < b`)
                if (first, op) in (("a", "lt"), ("b", "gt")):
                    pass_val = False           # test is `a < b`
                elif (first, op) in (("a", "ge"), ("b", "le")):
                    pass_val = True            # test is `a >= b`
                else:
                    continue                   # `a > b` / `a <= b`: a different relation, not accepted
                edges.append((bb, si["true"] if pass_val else si["false"]))
                blocks.append(bb)
        return edges, blocks
    return ("custom", fn, label)


def G_any(guards, label):
    """disjunction: the union of the pass edges of several guards (each path must pass one of them)"""
    def fn(body):
        edges, blocks = [], []
        for g in guards:
            e, b = pass_edges(body, g)
            edges += e
            blocks += b
        return edges, blocks
    return ("custom", fn, label)


# --------------------------------------------------------------------------- argument origins
def origin_names(body, op, deep=False):
    """set of non-pass-through origins of an operand: 'call:<callee>', 'param:<n>', 'const:<def-or-value>', 'agg:<adt::variant>' …
    deep=True also descends into the operands of aggregates the value was built from"""
    out = set()
    for a in body.origins(op, deep=deep):
        if a.kind == "call" and (mir.PASS_THROUGH.match(a.what) or mir.PASS_THROUGH.match(a.extra["fd"])
                                 or (deep and mir.DERIVED_THROUGH.match(a.what))):
            continue
        out.add(f"{a.kind}:{a.what}")
    return out


def check_arg_origin(ctx, key, body, call_pattern, arg_index, allowed_regex, what, min_sites=1):
    """every argument #arg_index of every call matching call_pattern originates only from allowed origins"""
    r = re.compile(allowed_regex)
    sites = body.calls(call_pattern)
    if len(sites) < min_sites:
        return ctx.ob(key, False, f"{what}: expected >= {min_sites} call(s) matching {call_pattern} in {body.name}, found {len(sites)}", body.loc())
    ok_all = True
    for bb, t in sites:
        if arg_index >= len(t["args"]):
            ctx.ob(key, False, f"{what}: call at bb{bb} has no argument #{arg_index}", body.loc(bb))
            ok_all = False
            continue
        names = origin_names(body, t["args"][arg_index])
        bad = sorted(n for n in names if not r.search(n))
        ok = bool(names) and not bad
        ctx.ob(key, ok, f"{what}: argument #{arg_index} of {t['f'].split('::')[-1]} originates from {sorted(names)}" +
               ("" if ok else f" — NOT allowed: {bad}"), body.loc(bb))
        if ok:
            ctx.sample({"fn": body.name, "rule": "argument origin", "call": t["f"], "arg": arg_index, "origins": sorted(names)})
        ok_all = ok_all and ok
    return ok_all


_NEG = {"Gt": "Le", "Le": "Gt", "Lt": "Ge", "Ge": "Lt", "Eq": "Ne", "Ne": "Eq"}
_SWAP = {"Gt": "Lt", "Lt": "Gt", "Ge": "Le", "Le": "Ge", "Eq": "Eq", "Ne": "Ne"}


def G_bin(op_re, a_all, b_all, label, pass_value):
    """guard = branch on a MIR comparison `a <op> b` where the deep origins of `a` match every regex in a_all and those of `b` every
    regex in b_all; protected code on the edge where `a <op> b` == pass_value.  Every equivalent syntactic form is recognised: swapped
    operands (`b > a` for `a < b`) and the complementary operator on the other edge (`a >= b` false for `a < b` true)."""
    opr = re.compile(op_re)
    wanted = [o for o in _NEG if opr.fullmatch(o)]

    def fn(body):
        edges, blocks = [], []
        for bb in body.switches():
            si = body.switch_info(bb)
            if not si or si["kind"] != "bool":
                continue
            for a in si["atoms"]:
                if a.kind != "bin" or a.what not in _NEG:
                    continue
                na = origin_names(body, a.extra["a"], deep=True)
                nb = origin_names(body, a.extra["b"], deep=True)
                ma = lambda n, spec: all(any(re.search(r, x) for x in n) for r in spec)
                op = None
                if ma(na, a_all) and ma(nb, b_all):
                    op = a.what
                elif ma(na, b_all) and ma(nb, a_all):
                    op = _SWAP[a.what]
                if op is None:
                    continue
                if op in wanted:
                    pv = pass_value
                elif _NEG[op] in wanted:
                    pv = not pass_value
                else:
                    continue
                edges.append((bb, si["true"] if pv else si["false"]))
                blocks.append(bb)
        return edges, blocks
    return ("custom", fn, label)


# --------------------------------------------------------------------------- panic surface (T6)
PANIC_CALLS = [
    (r"^core::panicking::(panic|panic_fmt|panic_display|panic_explicit|unreachable_display|panic_nounwind|assert_failed|assert_failed_inner|panic_const::.*)$", "panic"),
    (r"^std::rt::begin_panic|^core::panicking::|^std::panicking::", "panic"),
    (r"^core::option::Option(<[^>]*>)?::(unwrap|expect)$", "Option::unwrap"),
    (r"^core::result::Result(<[^>]*>)?::(unwrap|expect|unwrap_err|expect_err)$", "Result::unwrap"),
    (r"^core::option::unwrap_failed|^core::option::expect_failed|^core::result::unwrap_failed", "panic"),
    (r"core::ops::index::Index(Mut)?(<.*>)?>::index(_mut)?$", "index"),
    (r"^core::slice::<impl \[T\]>::(copy_from_slice|clone_from_slice|split_at|split_at_mut|swap|rotate_left|rotate_right|chunks|chunks_exact|windows|first_chunk|last_chunk)$|^\[T\]::(copy_from_slice|clone_from_slice|split_at|split_at_mut|swap|chunks|chunks_exact|windows)$", "slice-op"),
    (r"^core::str::<impl str>::(split_at|split_at_mut)$|^str::(split_at|split_at_mut)$", "str-split"),
    (r"^alloc::vec::Vec(<.*>)?::(remove|insert|swap_remove|drain|split_off|truncate_front)$", "vec-op"),
    (r"^alloc::string::String::(remove|insert|insert_str|drain|split_off|replace_range)$", "string-op"),
    (r"^core::cell::RefCell(<.*>)?::(borrow|borrow_mut)$", "refcell"),
    (r"^alloc::collections::vec_deque::VecDeque(<.*>)?::(remove|insert|swap)$", "vecdeque-op"),
    (r"^core::num::<impl [iu][0-9a-z]+>::(pow|abs|div_euclid|rem_euclid|next_power_of_two|ilog|ilog2|ilog10)$|^[iu](8|16|32|64|128|size)::(pow|abs|div_euclid|rem_euclid|next_power_of_two|ilog|ilog2|ilog10)$", "int-op"),
    (r"^core::char::methods::<impl char>::from_digit$|^char::from_digit$", "char-op"),
    (r"^core::iter::traits::iterator::Iterator::step_by$|^core::slice::<impl \[T\]>::(chunks|windows)$", "iter-op"),
    # operator-trait arithmetic on the repo's big-integer / decimal wrappers panics on overflow or division by zero
    (r"^<radix_common::math::(bnum_integer::\w+|decimal::Decimal|precise_decimal::PreciseDecimal)(<.*>)? as core::ops::(arith|bit)::(Add|Sub|Mul|Div|Rem|Neg|Shl|Shr|AddAssign|SubAssign|MulAssign|DivAssign)(<.*>)?>::\w+$", "bigint-op"),
    (r"^radix_common::math::bnum_integer::\w+::(pow|abs|nth_root)$", "bigint-op"),
    (r"^num_bigint::|^<num_bigint::", "bigint-lib-op"),
]
_PANIC_RES = [(re.compile(p), k) for p, k in PANIC_CALLS]


def index_kind(t):
    """'index:<container>' for an Index::index call"""
    m = re.match(r"^<(.*?) as core::ops::index::Index", t["f"])
    if m:
        return "index:" + re.sub(r"<.*", "", m.group(1))
    m = re.match(r"^<(.*?) as core::ops::index::Index", t["fd"])
    if m:
        return "index:" + re.sub(r"<.*", "", m.group(1))
    # unresolved: use the argument type of the generic call
    ga = t.get("ga", "")
    return "index:" + re.sub(r"[<,\]].*", "", ga.strip("[")) if ga else "index:?"


def panic_sites(body):
    """[(kind, bb, detail)] of every panic-capable construct in a MIR body (asserts + known panicking callees)"""
    out = []
    for i in range(body.n):
        if body.blocks[i].get("cu"):
            continue
        t = body.term(i)
        if t["k"] == "assert":
            out.append((t["ak"], i, ""))
        elif t["k"] == "call":
            for r, k in _PANIC_RES:
                if r.search(t["f"]) or r.search(t["fd"]):
                    if k == "index":
                        k = index_kind(t)
                        # the range flavour matters for str (char-boundary panics)
                        if "Range" in t["f"] or "Range" in t["fd"] or "Range" in t.get("ga", ""):
                            k += "[range]"
                    out.append((k, i, t["f"]))
                    break
    return out


def const_index_under_len_eq(body, bb, t):
    """discharge: `v[K]` (Vec/slice Index with constant K) dominated by a `v.len() == N` test with K < N on the true edge"""
    idx = t["args"][1]
    k = body.const_value(idx)
    if k is None:
        return False
    edges = []
    for sb in body.switches():
        si = body.switch_info(sb)
        if not si or si["kind"] != "bool":
            continue
        for a in si["atoms"]:
            if a.kind == "bin" and a.what == "Eq":
                ops = [a.extra["a"], a.extra["b"]]
                lens = [o for o in ops if o[0] != "k" and any(x.kind == "call" and re.search(r"(Vec(<.*>)?|\[T\]|<impl \[T\]>)::len$", x.what) for x in body.origins(o))]
                consts = [body.const_value(o) for o in ops if o not in lens]
                consts = [c for c in consts if c is not None]
                if consts and lens and k < consts[0]:
                    edges.append((sb, si["true"]))
    if not edges:
        return False
    return body.unreachable_without([bb], edges)[0]


def check_panic_surface(ctx, key, bodies, audited, discharge=None, what=""):
    """T6: every panic-capable construct in `bodies` is either discharged by a local rule or listed in the audited multiset
    audited: {fn-suffix-regex: {kind: (max_count, reason)}}"""
    total, discharged_n, listed = 0, 0, 0
    for b in bodies:
        sites = panic_sites(b)
        residue = {}
        for kind, bb, detail in sites:
            total += 1
            t = b.term(bb)
            if t["k"] == "call" and kind.startswith("index:") and "[range]" not in kind and const_index_under_len_eq(b, bb, t):
                discharged_n += 1
                continue
            if discharge and discharge(b, kind, bb, t):
                discharged_n += 1
                continue
            residue.setdefault(kind, []).append(bb)
        table = {}
        for pat, tb in audited.items():
            if re.search(pat, b.name):
                for k, v in tb.items():
                    table[k] = v
        short = b.name.split("::")[-1] if not b.name.endswith("}") else "::".join(b.name.split("::")[-2:])
        owner = re.sub(r"^.*?([A-Za-z0-9_]+(::\{closure#\d+\})*)$", r"\1", b.name)
        for kind, bbs in sorted(residue.items()):
            mx, why = table.get(kind, (0, None))
            ok = len(bbs) <= mx
            listed += min(len(bbs), mx)
            ctx.ob(f"{key}|{owner}|{kind}", ok,
                   f"{what}: {len(bbs)} `{kind}` site(s) in {b.name}" + (f" within the audited {mx} ({why})" if ok else
                                                                        f" but only {mx} audited: a panic-capable construct on an untrusted-input path needs a local guard or an audit line"),
                   b.loc(bbs[0]))
    return total, discharged_n, listed


# --------------------------------------------------------------------------- check liveness (T7)
def variant_constructors(F, enum_path, scope=None):
    """{variant: [fn names]} for constructions of variants of enum_path (scope: regex on fn name), derive impls excluded"""
    pre = enum_path + "::"
    r = re.compile(scope) if scope else None
    out = {}
    for f in F.fns.values():
        if f.timpl and f.timpl[0] in ("core::clone::Clone", "sbor::decode::Decode", "core::default::Default") or \
                (f.timpl and f.timpl[0].startswith("sbor::")):
            continue
        if r and not r.search(f.name):
            continue
        for v in f.vars:
            if v.startswith(pre) and "::" not in v[len(pre):]:
                out.setdefault(v[len(pre):], []).append(f.name)
    return out


def check_variants_live(ctx, key, enum_path, scope=None, dead_ok=None, F=None, conditional=True):
    """T7: every variant of a rejection enum is constructed somewhere in scope (a check whose error can no longer be produced is no
    longer enforced) and, when conditional, at least one construction site is control-dependent on a branch"""
    F = F or ctx.F
    dead_ok = dead_ok or {}
    allv = set(F.enums.get(enum_path, {}).values())
    if not allv:
        return ctx.ob(f"{key}|enum-known", False, f"enum {enum_path} not found in the fact database")
    cons = variant_constructors(F, enum_path, scope)
    ok_all = True
    for v in sorted(allv):
        if v in dead_ok:
            if v in cons:
                ctx.note(f"{enum_path}::{v} is listed as dead ({dead_ok[v]}) but is constructed in {cons[v][:2]}")
            continue
        fns = cons.get(v, [])
        ok = bool(fns)
        detail = f"{enum_path.rsplit('::',1)[1]}::{v} constructed in {len(fns)} function(s)" + (f" e.g. {fns[0]}" if fns else " — the rejection is DEAD")
        if ok and conditional:
            cond = False
            for fn in fns[:6]:
                if F.fns[fn].timpl and F.fns[fn].timpl[0].startswith("core::convert::From"):
                    cond = True   # wrapper variant: produced by `?` conversion of an inner error
                    continue
                b = ctx.body(fn, F)
                sites = agg_blocks(b, re.escape(enum_path) + "$", v)
                rets = set(b.returns())
                for s in sites:
                    if b.reach((0,), blocked_blocks=[s]) & rets or len(b.switches()) > 0 and s != 0:
                        cond = True
            ok = cond
            if not cond:
                detail += " but never under a branch"
        ctx.ob(f"{key}|{v}", ok, detail, F.fns[fns[0]].loc() if fns else "")
        ok_all = ok_all and ok
    return ok_all


def struct_fields(ctx, adt, F=None):
    """field names of a struct, read from any aggregate construction of it"""
    F = F or ctx.F
    for f in F.fns.values():
        if adt in f.structs and not (f.timpl and f.timpl[0] in ("core::clone::Clone",)):
            b = ctx.body(f.name, F)
            for i in range(b.n):
                for s in b.stmts(i):
                    if s["k"] == "=" and s["rv"]["k"] == "agg" and s["rv"].get("adt") == adt and not s["rv"].get("var"):
                        return list(s["rv"]["fields"])
    return []


def field_readers(F, adt, field, scope=None):
    key = f"{adt}.{field}"
    r = re.compile(scope) if scope else None
    out = []
    for f in F.fns.values():
        if key in f.fr and (r is None or r.search(f.name)):
            if f.timpl and (f.timpl[0] in ("core::clone::Clone", "core::fmt::Debug", "core::cmp::PartialEq", "core::cmp::Eq", "core::hash::Hash") or f.timpl[0].startswith("sbor::")):
                continue
            out.append(f.name)
    return out


def doomed(body, succ):
    """no success exit is reachable from block `succ`"""
    oks = set(body.ok_exits())
    return not (body.reach((succ,)) & oks)


def field_guards(body, field):
    """switch blocks whose condition depends (deep data dependence) on a place projecting `.field`"""
    out = []
    tag = "." + field
    for sb in body.switches():
        t = body.term(sb)
        ats = body.origins(t["o"], deep=True)
        if any(tag in a.proj for a in ats):
            out.append(sb)
    return out


def check_limit_enforced(ctx, key, adt, field, scope, F=None, accessor=None):
    """T7: config field `adt.field` is read in `scope` by a function in which some branch depends on it and one arm of that branch is
    doomed (cannot reach a success exit) — i.e. the configured limit can actually reject"""
    F = F or ctx.F
    readers = [n for n in field_readers(F, adt, field, scope) if adt not in F.fns[n].structs]
    if accessor:
        acc = [n for n in readers if re.search(accessor, n)]
        if acc:
            callers = who_calls(F, re.escape(acc[0]) + "$")
            return ctx.ob(f"{key}|{field}", bool(callers), f"{field} is exposed by accessor {acc[0]} with {len(callers)} caller(s)", F.fns[acc[0]].loc())
    if not readers:
        return ctx.ob(f"{key}|{field}", False, f"configured limit {field} is never read in {scope}: it is not enforced")
    best = None
    for n in readers:
        for b in ctx.bodies_of(F.fns[n].root, F):
            for sb in field_guards(b, field):
                succs = b.succs(sb)
                d = [s for s in succs if doomed(b, s)]
                if d and len(d) < len(succs):
                    best = (b, sb)
                    break
            if best:
                break
        if best:
            break
    if not best:
        # one/two-level interprocedural: the field value is passed to a callee that rejects on it
        tag = "." + field
        for n in readers:
            for b in ctx.bodies_of(F.fns[n].root, F):
                for bb, t in b.calls(None):
                    for j, a in enumerate(t["args"]):
                        if any(tag in x.proj for x in b.origins(a, deep=True)):
                            for tg in [t["f"]] + F.impls().get(t["f"], []) + F.impls().get(t["fd"], []):
                                r = param_guarded(ctx, tg, j + 1, 2, F)
                                if r:
                                    best = r
                                    break
                        if best:
                            break
                    if best:
                        break
                if best:
                    break
            if best:
                break
    if best:
        b, sb = best
        ctx.sample({"rule": "T7 limit enforced", "field": field, "fn": b.name, "guard_block": sb, "line": b.line(sb)})
        return ctx.ob(f"{key}|{field}", True, f"{field} feeds a rejecting branch at bb{sb} of {b.name}", b.loc(sb))
    return ctx.ob(f"{key}|{field}", False, f"{field} is read by {readers[:3]} but no branch depending on it has a rejecting arm", F.fns[readers[0]].loc())


def check_each_try_dominates(ctx, key, body, pattern, targets, what, min_calls=1):
    """every `callee(..)?` matching pattern is individually necessary: with only *its* success edge removed no target is reachable"""
    tg = body.try_guards(pattern)
    by_call = {}
    for sb, ps, fs, cbb in tg:
        by_call.setdefault(cbb, []).append((sb, ps))
    if len(by_call) < min_calls:
        return ctx.ob(key, False, f"{what}: expected >= {min_calls} checked call(s) matching {pattern} in {body.name}, found {len(by_call)}", body.loc())
    if not targets:
        return ctx.ob(key, False, f"{what}: no target site in {body.name}", body.loc())
    ok_all = True
    for cbb, lst in sorted(by_call.items()):
        edges = [(sb, p) for sb, ps in lst for p in ps]
        ok, wit = body.unreachable_without(targets, edges)
        ctx.ob(f"{key}|call@{sorted(by_call).index(cbb)}", ok,
               f"{what}: the check at line {body.line(cbb)} " + ("dominates the write" if ok else f"is BYPASSED: {body.fmt_path(wit)}"), body.loc(cbb))
        ok_all = ok_all and ok
    return ok_all


def param_guarded(ctx, fname, pidx, depth=2, F=None, seen=None):
    """does function `fname` (or a callee it forwards the parameter to, up to `depth` levels, CHA for trait methods) contain a branch that
    depends on parameter #pidx and has a rejecting (doomed) arm?  -> (body, switch_bb) or None"""
    F = F or ctx.F
    seen = seen or set()
    if (fname, pidx) in seen or fname not in F.fns:
        return None
    seen.add((fname, pidx))
    for b in ctx.bodies_of(F.fns[fname].root, F):
        if b.name != fname:
            continue
        for sb in b.switches():
            ats = b.origins(b.term(sb)["o"], deep=True)
            if any(a.kind == "param" and a.what == pidx for a in ats):
                succs = b.succs(sb)
                d = [s for s in succs if doomed(b, s)]
                if d and len(d) < len(succs):
                    return b, sb
        if depth > 0:
            for bb, t in b.calls(None):
                for j, a in enumerate(t["args"]):
                    if any(x.kind == "param" and x.what == pidx for x in b.origins(a, deep=True)):
                        targets = [t["f"]] + F.impls().get(t["f"], []) + F.impls().get(t["fd"], [])
                        for tg in targets:
                            r = param_guarded(ctx, tg, j + 1, depth - 1, F, seen)
                            if r:
                                return r
    return None
